// authrun: driver for property C14 (no API route works without a valid token; rejected requests do nothing).
//
// Builds the real server (server.NewServer on a real PipelineRunner) for both profiling settings, discovers its routes
// from the live router, and sends to every discovered route (and to the other methods on the same paths) requests with
// every class of credential in every transport. Records status, kind of response and whether the runner state changed.
package main

import (
	"bytes"
	"context"
	"crypto/rand"
	"crypto/rsa"
	"encoding/base64"
	"flag"
	"fmt"
	"io"
	"net"
	"net/http"
	"path/filepath"
	"net/http/httptest"
	"os"
	"sort"
	"strings"
	"time"

	"github.com/apex/log"
	"github.com/apex/log/handlers/discard"
	"github.com/go-chi/chi/v5"
	"github.com/go-chi/jwtauth/v5"
	"github.com/lestrrat-go/jwx/jwa"
	"github.com/lestrrat-go/jwx/jwt"
	"github.com/taskctl/taskctl/pkg/task"

	"github.com/Flowpack/prunner"
	"github.com/Flowpack/prunner/app"
	"github.com/Flowpack/prunner/definition"
	"github.com/Flowpack/prunner/server"
	"github.com/Flowpack/prunner/taskctl"
	"github.com/Flowpack/prunner/test"

	"verifharness/hutil"
)

const secret = "0123456789abcdef0123456789abcdef"

type Token struct {
	Kind  string `json:"kind"` // missing | malformed | jwt
	Alg   string `json:"alg,omitempty"`
	KeyOK bool   `json:"key_ok,omitempty"`
	Exp   string `json:"exp,omitempty"` // past | future | absent
	Nbf   string `json:"nbf,omitempty"`
	IatF  bool   `json:"iat_future,omitempty"`
	Raw   string `json:"-"`
	Junk  string `json:"junk,omitempty"`
}

type Case struct {
	Profiling  bool   `json:"profiling"`
	Method     string `json:"method"`
	Path       string `json:"path"`       // the discovered pattern
	Registered bool   `json:"registered"` // is (method, path) a discovered route
	Header     *Token `json:"header"`
	Cookie     *Token `json:"cookie"`
	Status     int    `json:"status"`
	JSON       bool   `json:"json"`    // the response is a JSON document (a handler of the API ran)
	Changed    bool   `json:"changed"` // the runner state changed
	Leaks      bool   `json:"leaks"`   // the body mentions job / pipeline data
}

var rsaKey *rsa.PrivateKey

func mkJWT(t *Token) {
	if t.Kind != "jwt" {
		return
	}
	tok := jwt.New()
	_ = tok.Set("sub", "tester")
	now := time.Now()
	switch t.Exp {
	case "past":
		_ = tok.Set(jwt.ExpirationKey, now.Add(-time.Hour))
	case "future":
		_ = tok.Set(jwt.ExpirationKey, now.Add(time.Hour))
	}
	switch t.Nbf {
	case "past":
		_ = tok.Set(jwt.NotBeforeKey, now.Add(-time.Hour))
	case "future":
		_ = tok.Set(jwt.NotBeforeKey, now.Add(time.Hour))
	}
	if t.IatF {
		_ = tok.Set(jwt.IssuedAtKey, now.Add(time.Hour))
	}
	key := []byte(secret)
	if !t.KeyOK {
		key = []byte("another-secret-another-secret-00")
	}
	var signed []byte
	var err error
	switch t.Alg {
	case "HS256", "HS384", "HS512":
		signed, err = jwt.Sign(tok, jwa.SignatureAlgorithm(t.Alg), key)
	case "RS256":
		signed, err = jwt.Sign(tok, jwa.RS256, rsaKey)
	case "none":
		// unsigned token: header {"alg":"none"}, payload, empty signature
		hs, _ := jwt.Sign(tok, jwa.HS256, key)
		parts := strings.Split(string(hs), ".")
		hdr := base64.RawURLEncoding.EncodeToString([]byte(`{"alg":"none","typ":"JWT"}`))
		signed = []byte(hdr + "." + parts[1] + ".")
	}
	if err != nil {
		panic(err)
	}
	t.Raw = string(signed)
}

func allTokens(full bool) []*Token {
	var ts []*Token
	ts = append(ts, &Token{Kind: "missing"})
	for _, j := range []string{"abc", "a.b.c", "Bearer", "e30.e30.e30", "..", strings.Repeat("x", 500)} {
		ts = append(ts, &Token{Kind: "malformed", Junk: j, Raw: j})
	}
	algs := []string{"HS256", "HS384", "HS512", "RS256", "none"}
	tri := []string{"past", "future", "absent"}
	for _, a := range algs {
		for _, k := range []bool{true, false} {
			if (a == "RS256" || a == "none") && !k {
				continue
			}
			for _, e := range tri {
				for _, n := range tri {
					for _, i := range []bool{false, true} {
						if !full && !(a == "HS256" && k) && (e == "past" || n == "future" || i) {
							continue // in the reduced set, invalid-for-two-reasons tokens are skipped
						}
						t := &Token{Kind: "jwt", Alg: a, KeyOK: k, Exp: e, Nbf: n, IatF: i}
						mkJWT(t)
						ts = append(ts, t)
					}
				}
			}
		}
	}
	return ts
}

type env struct {
	srv    http.Handler
	r      *prunner.PipelineRunner
	jobID  string
	routes [][2]string
}

func newEnv(profiling bool, gate chan struct{}) *env {
	defs := &definition.PipelinesDef{Pipelines: map[string]definition.PipelineDef{
		"p": {Concurrency: 100, Tasks: map[string]definition.TaskDef{"a": {Script: []string{"x"}}}, SourcePath: "f"},
	}}
	r, err := prunner.NewPipelineRunner(context.Background(), defs, func(j *prunner.PipelineJob) taskctl.Runner {
		return &test.MockRunner{OnRun: func(t *task.Task) error { <-gate; return nil }}
	}, nil, test.NewMockOutputStore())
	if err != nil {
		panic(err)
	}
	j, err := r.ScheduleAsync("p", prunner.ScheduleOpts{})
	if err != nil {
		panic(err)
	}
	ost := test.NewMockOutputStore()
	srv := server.NewServer(r, ost, func(h http.Handler) http.Handler { return h }, jwtauth.New("HS256", []byte(secret), nil), profiling)
	e := &env{srv: srv, r: r, jobID: j.ID.String()}
	_ = chi.Walk(srv.VerifRoutes(), func(method string, route string, handler http.Handler, middlewares ...func(http.Handler) http.Handler) error {
		e.routes = append(e.routes, [2]string{method, route})
		return nil
	})
	sort.Slice(e.routes, func(a, b int) bool { return e.routes[a][1]+e.routes[a][0] < e.routes[b][1]+e.routes[b][0] })
	return e
}

func (e *env) digest() string {
	var parts []string
	e.r.IterateJobs(func(j *prunner.PipelineJob) {
		parts = append(parts, fmt.Sprintf("%s:%v:%v", j.ID, j.Canceled, j.Completed))
	})
	sort.Strings(parts)
	return strings.Join(parts, ",")
}

func (e *env) do(method, pattern string, hdr, cookie *Token) (int, bool, bool, bool) {
	path := strings.TrimSuffix(pattern, "*")
	var body []byte
	switch {
	case strings.HasSuffix(path, "/profile"), strings.HasSuffix(path, "/trace"):
		path += "?seconds=1"
	case strings.HasSuffix(path, "/schedule"):
		body = []byte(`{"pipeline":"p"}`)
	case strings.HasSuffix(path, "/cancel"), strings.HasSuffix(path, "/detail"):
		path += "?id=" + e.jobID
	case strings.HasSuffix(path, "/logs"):
		path += "?id=" + e.jobID + "&task=a"
	}
	req := httptest.NewRequest(method, path, bytes.NewReader(body))
	if hdr != nil && hdr.Kind != "missing" {
		req.Header.Set("Authorization", "Bearer "+hdr.Raw)
	}
	if cookie != nil && cookie.Kind != "missing" {
		req.AddCookie(&http.Cookie{Name: "jwt", Value: cookie.Raw})
	}
	before := e.digest()
	rec := httptest.NewRecorder()
	e.srv.ServeHTTP(rec, req)
	after := e.digest()
	b := rec.Body.String()
	isJSON := strings.HasPrefix(rec.Header().Get("Content-Type"), "application/json")
	leaks := strings.Contains(b, e.jobID) || strings.Contains(b, `"pipelines"`) || strings.Contains(b, `"jobs"`) || strings.Contains(b, `"stdout"`)
	return rec.Code, isJSON, before != after, leaks
}

func main() {
	out := flag.String("out", "", "output file")
	full := flag.Bool("full", false, "all token classes in every transport")
	seed := flag.Uint64("seed", 1, "seed (selection of the reduced transports)")
	mode := flag.String("mode", "server", "server: server.NewServer in process; app: the CLI application (app.New) on a local port")
	flag.Parse()
	log.SetHandler(discard.Default)
	if *mode == "app" {
		runApp(*out)
		return
	}
	w := os.Stdout
	if *out != "" {
		f, err := os.Create(*out)
		if err != nil {
			panic(err)
		}
		defer f.Close()
		w = f
	}
	var err error
	rsaKey, err = rsa.GenerateKey(rand.Reader, 2048)
	if err != nil {
		panic(err)
	}
	rng := hutil.NewRng(*seed)
	tokens := allTokens(*full)
	valid := &Token{Kind: "jwt", Alg: "HS256", KeyOK: true, Exp: "future", Nbf: "absent"}
	mkJWT(valid)
	gate := make(chan struct{})
	methods := []string{"GET", "POST", "PUT", "DELETE", "PATCH", "HEAD", "OPTIONS"}
	for _, profiling := range []bool{false, true} {
		e := newEnv(profiling, gate)
		hutil.JSONLine(w, map[string]interface{}{"kind": "routes", "profiling": profiling, "routes": e.routes})
		paths := map[string]bool{}
		reg := map[string]bool{}
		for _, r := range e.routes {
			paths[r[1]] = true
			reg[r[0]+" "+r[1]] = true
		}
		// paths that are not routes
		for _, p := range []string{"/", "/foo", "/pipelines", "/pipelines/nope", "/job", "/job/nope", "/jobs"} {
			paths[p] = true
		}
		// paths that must not exist when profiling is off
		if !profiling {
			for _, p := range []string{"/debug/pprof/", "/debug/pprof/cmdline", "/debug/vars", "/debug/"} {
				paths[p] = true
			}
		}
		var plist []string
		for p := range paths {
			plist = append(plist, p)
		}
		sort.Strings(plist)
		for _, p := range plist {
			for _, m := range methods {
				registered := reg[m+" "+p]
				for ti, t := range tokens {
					if strings.HasPrefix(p, "/debug") && (m != "GET" || ti > 1) {
						// profiling routes: without and with a junk token only (some of them take a second to answer)
						continue
					}
					// header transport: every token class on registered routes; on other methods a sample
					if !registered && !*full && t.Kind == "jwt" && !(t.Alg == "HS256" && t.KeyOK && t.Exp != "past" && t.Nbf != "future" && !t.IatF) && rng.Intn(8) != 0 {
						continue
					}
					c := Case{Profiling: profiling, Method: m, Path: p, Registered: registered, Header: t}
					c.Status, c.JSON, c.Changed, c.Leaks = e.do(m, p, t, nil)
					hutil.JSONLine(w, map[string]interface{}{"kind": "case", "c": c})
					if !registered && !*full {
						continue
					}
					if *full || t.Kind != "jwt" || rng.Intn(4) == 0 || (t.Alg == "HS256" && t.KeyOK) {
						c2 := Case{Profiling: profiling, Method: m, Path: p, Registered: registered, Cookie: t}
						c2.Status, c2.JSON, c2.Changed, c2.Leaks = e.do(m, p, nil, t)
						hutil.JSONLine(w, map[string]interface{}{"kind": "case", "c": c2})
						// both transports: the header wins
						c3 := Case{Profiling: profiling, Method: m, Path: p, Registered: registered, Header: t, Cookie: valid}
						c3.Status, c3.JSON, c3.Changed, c3.Leaks = e.do(m, p, t, valid)
						hutil.JSONLine(w, map[string]interface{}{"kind": "case", "c": c3})
						c4 := Case{Profiling: profiling, Method: m, Path: p, Registered: registered, Header: valid, Cookie: t}
						c4.Status, c4.JSON, c4.Changed, c4.Leaks = e.do(m, p, valid, t)
						hutil.JSONLine(w, map[string]interface{}{"kind": "case", "c": c4})
					}
				}
			}
		}
		// a token that was accepted while valid must be refused once it has expired (seeded change C14-I: a cache of
		// verified token strings): the same raw token on every registered route before and after its expiry
		short := &Token{Kind: "jwt", Alg: "HS256", KeyOK: true, Exp: "future", Nbf: "absent"}
		{
			tok := jwt.New()
			_ = tok.Set("sub", "tester")
			minted := time.Now()
			_ = tok.Set(jwt.ExpirationKey, minted.Add(3*time.Second))
			signed, err := jwt.Sign(tok, jwa.HS256, []byte(secret))
			if err != nil {
				panic(err)
			}
			short.Raw = string(signed)
			var regs [][2]string
			for _, r := range e.routes {
				if !strings.HasPrefix(r[1], "/debug") {
					regs = append(regs, r)
				}
			}
			for _, r := range regs {
				for _, cookie := range []bool{false, true} {
					c := Case{Profiling: profiling, Method: r[0], Path: r[1], Registered: true}
					if cookie {
						c.Cookie = short
						c.Status, c.JSON, c.Changed, c.Leaks = e.do(r[0], r[1], nil, short)
					} else {
						c.Header = short
						c.Status, c.JSON, c.Changed, c.Leaks = e.do(r[0], r[1], short, nil)
					}
					hutil.JSONLine(w, map[string]interface{}{"kind": "case", "c": c, "round": "short_lived_first_use"})
				}
			}
			if d := time.Until(minted.Add(4200 * time.Millisecond)); d > 0 {
				time.Sleep(d)
			}
			expired := &Token{Kind: "jwt", Alg: "HS256", KeyOK: true, Exp: "past", Nbf: "absent", Raw: short.Raw}
			for _, r := range regs {
				for _, cookie := range []bool{false, true} {
					c := Case{Profiling: profiling, Method: r[0], Path: r[1], Registered: true}
					if cookie {
						c.Cookie = expired
						c.Status, c.JSON, c.Changed, c.Leaks = e.do(r[0], r[1], nil, expired)
					} else {
						c.Header = expired
						c.Status, c.JSON, c.Changed, c.Leaks = e.do(r[0], r[1], expired, nil)
					}
					hutil.JSONLine(w, map[string]interface{}{"kind": "case", "c": c, "round": "reused_after_expiry"})
				}
			}
		}
	}
	close(gate)
}

// ---------------------------------------------------------------- the CLI application

type AppCase struct {
	Flag   string         `json:"flag"` // absent | bare | true | false
	Env    string         `json:"env"`  // absent | true | 1 | false | 0
	Up     bool           `json:"up"`
	Status map[string]int `json:"status"` // probe -> status
	Leak   bool           `json:"leak"`   // an unauthenticated response contained the secret
}

func runApp(out string) {
	w := os.Stdout
	if out != "" {
		f, err := os.Create(out)
		if err != nil {
			panic(err)
		}
		defer f.Close()
		w = f
	}
	good := &Token{Kind: "jwt", Alg: "HS256", KeyOK: true, Exp: "future", Nbf: "absent"}
	mkJWT(good)
	bad := &Token{Kind: "jwt", Alg: "HS256", KeyOK: false, Exp: "future", Nbf: "absent"}
	mkJWT(bad)
	for _, fl := range []string{"absent", "bare", "true", "false"} {
		for _, ev := range []string{"absent", "true", "1", "false", "0"} {
			c := AppCase{Flag: fl, Env: ev, Status: map[string]int{}}
			l, err := net.Listen("tcp", "127.0.0.1:0")
			if err != nil {
				panic(err)
			}
			address := l.Addr().String()
			_ = l.Close()
			dir, err := os.MkdirTemp("", "authrun-app")
			if err != nil {
				panic(err)
			}
			args := []string{"prunner", "--jwt-secret", secret, "--config", filepath.Join(dir, ".prunner.yml"), "--data", filepath.Join(dir, ".prunner"),
				"--path", dir, "--env-files", "", "--address", address}
			switch fl {
			case "bare":
				args = append(args, "--enable-profiling")
			case "true", "false":
				args = append(args, "--enable-profiling="+fl)
			}
			if ev == "absent" {
				os.Unsetenv("PRUNNER_ENABLE_PROFILING")
			} else {
				os.Setenv("PRUNNER_ENABLE_PROFILING", ev)
			}
			ctx, cancel := context.WithCancel(context.Background())
			done := make(chan error, 1)
			go func() { done <- app.New(app.Info{Version: "verif"}).RunContext(ctx, args) }()
			base := "http://" + address
			deadline := time.Now().Add(10 * time.Second)
			for !c.Up && time.Now().Before(deadline) {
				resp, err := http.Get(base + "/pipelines/")
				if err == nil {
					_ = resp.Body.Close()
					c.Up = true
					break
				}
				select {
				case err := <-done:
					done <- err
					deadline = time.Now()
				default:
					time.Sleep(10 * time.Millisecond)
				}
			}
			if c.Up {
				probe := func(name, path string, t *Token) {
					req, _ := http.NewRequest("GET", base+path, nil)
					if t != nil {
						req.Header.Set("Authorization", "Bearer "+t.Raw)
					}
					resp, err := http.DefaultClient.Do(req)
					if err != nil {
						c.Status[name] = -1
						return
					}
					b, _ := io.ReadAll(resp.Body)
					_ = resp.Body.Close()
					c.Status[name] = resp.StatusCode
					if t == nil && strings.Contains(string(b), secret) {
						c.Leak = true
					}
				}
				probe("api_none", "/pipelines/", nil)
				probe("api_good", "/pipelines/", good)
				probe("api_bad", "/pipelines/", bad)
				probe("debug_pprof", "/debug/pprof/", nil)
				probe("debug_cmdline", "/debug/pprof/cmdline", nil)
				probe("debug_goroutine", "/debug/pprof/goroutine?debug=1", nil)
				probe("debug_vars", "/debug/vars", nil)
			}
			cancel()
			select {
			case <-done:
			case <-time.After(10 * time.Second):
			}
			os.Unsetenv("PRUNNER_ENABLE_PROFILING")
			_ = os.RemoveAll(dir)
			hutil.JSONLine(w, map[string]interface{}{"kind": "app", "c": c})
		}
	}
}

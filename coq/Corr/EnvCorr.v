(** Correspondence functions for C18: the environment observed in real task processes vs the model *)
From stdpp Require Import gmap strings.
From Coq Require Import NArith Ascii.
From PV Require Import Env.

Definition bs (l : list N) : string := string_of_list_ascii (map ascii_of_N l).

(** one task run: (id, process env, pipeline env, task env, task name, observations (name, value seen or None)) *)
Definition check_env (c : nat * list (string * string) * list (string * string) * list (string * string) * string * list (string * option string)) : nat * bool :=
  let '(id, proc, pipe, tenv, tn, seen) := c in
  let pm : vmap := list_to_map pipe in
  let tm : vmap := list_to_map tenv in
  (id, forallb (fun o : string * option string => bool_decide (sees_run o.1 proc pm tm tn = o.2)) seen).

Definition mismatches (cs : list (nat * list (string * string) * list (string * string) * list (string * string) * string * list (string * option string))) : list nat :=
  map fst (List.filter (fun r => negb (snd r)) (map check_env cs)).

(** a job scheduled with the given variable names: (id, names, was it refused a graph) *)
Definition check_vars (c : nat * list string * bool) : nat * bool :=
  let '(id, names, refused) := c in
  let vars : gmap string unit := list_to_map (map (fun n => (n, tt)) names) in
  (id, bool_decide (bool_decide (task_vars tt vars = None) = refused)).

Definition vars_mismatches (cs : list (nat * list string * bool)) : list nat :=
  map fst (List.filter (fun r => negb (snd r)) (map check_vars cs)).

package server

// Demonstration of defect D14 (see /verif/DESIGN.md section 5). Copy into /repo/server as zz_defects_test.go.
// The store used jsoniter.ConfigCompatibleWithStandardLibrary (since the repair of D5) — one shared object on which this
// package registers its time format for the API (RFC3339, seconds only). In every program that links the server (the
// prunner binary) the persisted timestamps were therefore cut down to whole seconds: after a restart a finished job is not
// reported with the timestamps it had, and jobs accepted within the same second lose their order (retention then keeps
// an arbitrary one instead of the newest).

import (
	"context"
	"os"
	"path/filepath"
	"testing"
	"time"

	"github.com/stretchr/testify/require"

	"github.com/Flowpack/prunner"
	"github.com/Flowpack/prunner/definition"
	"github.com/Flowpack/prunner/store"
	"github.com/Flowpack/prunner/taskctl"
	"github.com/Flowpack/prunner/test"
)

func TestDefectD14_PersistedTimestampsKeepTheirPrecision(t *testing.T) {
	dir := t.TempDir()
	st, err := store.NewJSONDataStore(dir)
	require.NoError(t, err)
	defs := &definition.PipelinesDef{Pipelines: map[string]definition.PipelineDef{
		"p": {Concurrency: 1, QueueLimit: nil, Tasks: map[string]definition.TaskDef{"a": {Script: []string{"x"}}}, SourcePath: "f"}}}
	ctx, cancel := context.WithCancel(context.Background())
	cancel() // no persist loop
	mk := func() *prunner.PipelineRunner {
		r, err := prunner.NewPipelineRunner(ctx, defs, func(j *prunner.PipelineJob) taskctl.Runner { return &test.MockRunner{} }, st, test.NewMockOutputStore())
		require.NoError(t, err)
		return r
	}
	r := mk()
	j1, err := r.ScheduleAsync("p", prunner.ScheduleOpts{})
	require.NoError(t, err)
	j2, err := r.ScheduleAsync("p", prunner.ScheduleOpts{})
	require.NoError(t, err)
	id1, id2 := j1.ID, j2.ID
	require.Eventually(t, func() bool {
		done := 0
		r.IterateJobs(func(j *prunner.PipelineJob) {
			if j.Completed {
				done++
			}
		})
		return done == 2
	}, 3*time.Second, 5*time.Millisecond)
	var c1, c2 time.Time
	_ = r.ReadJob(id1, func(j *prunner.PipelineJob) { c1 = j.Created })
	_ = r.ReadJob(id2, func(j *prunner.PipelineJob) { c2 = j.Created })
	require.True(t, c1.Before(c2))
	r.SaveToStore()
	b, _ := os.ReadFile(filepath.Join(dir, "data.json"))
	t.Logf("%s", b)

	r2 := mk() // a new process on the same store
	var d1, d2 time.Time
	require.NoError(t, r2.ReadJob(id1, func(j *prunner.PipelineJob) { d1 = j.Created }))
	require.NoError(t, r2.ReadJob(id2, func(j *prunner.PipelineJob) { d2 = j.Created }))
	require.True(t, d1.Equal(c1), "creation time of job 1 changed across the restart: %v -> %v", c1.UTC(), d1.UTC())
	require.True(t, d2.Equal(c2), "creation time of job 2 changed across the restart: %v -> %v", c2.UTC(), d2.UTC())
	require.True(t, d1.Before(d2), "the two jobs lost their order")
}

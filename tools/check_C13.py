#!/usr/bin/env python3
"""C13 — the runner's public API is free of data races under concurrent use. Proof: coq/Properties/C13.v over Locks.v
(lock discipline => race freedom, for any number of threads and every interleaving) + the generated lock table of prunner.go.
Tie to prunner.go: (1) translator harness/cmd/locktab (go/ast + go/types): lock mode held at every access of a guarded field,
interprocedurally, regenerated on every run and checked in Coq (table_ok); (2) search: racerun, a -race build overlapping schedule,
cancel, read, list, reload, save with retention, HTTP handlers and shutdown with real callbacks."""
import json
import os
import re
import shutil
import subprocess
import sys

sys.path.insert(0, os.path.dirname(os.path.abspath(__file__)))
from common import *  # noqa


def race_runs(ctx, bins, runs):
    """run racerun instances (4 at a time); returns list of result dicts"""
    res = []
    pending = list(runs)
    while pending:
        batch, pending = pending[:4], pending[4:]
        procs = []
        for seed, ms, workers in batch:
            out = os.path.join(ctx.run, "race-%d.json" % seed)
            logp = os.path.join(ctx.run, "race-%d.log" % seed)
            env = dict(os.environ, GORACE="halt_on_error=0 exitcode=66 log_path=%s" % logp)
            err = open(os.path.join(ctx.run, "race-%d.stderr" % seed), "w")
            p = subprocess.Popen([bins["racerun"], "-seed", str(seed), "-ms", str(ms), "-workers", str(workers), "-out", out], cwd=ctx.run, env=env,
                                 stdout=subprocess.DEVNULL, stderr=err)
            procs.append((seed, ms, workers, out, logp, err, p))
        for seed, ms, workers, out, logp, err, p in procs:
            try:
                rc = p.wait(timeout=600)
            except subprocess.TimeoutExpired:
                p.kill()
                rc = -9
            err.close()
            stderr = open(err.name, errors="replace").read()
            reports = ""
            for f in os.listdir(ctx.run):
                if f.startswith(os.path.basename(logp)):
                    reports += open(os.path.join(ctx.run, f), errors="replace").read()
            summary = {}
            if os.path.exists(out):
                try:
                    summary = json.loads(open(out).read().strip() or "{}")
                except ValueError:
                    summary = {}
            res.append({"seed": seed, "ms": ms, "workers": workers, "rc": rc, "summary": summary, "races": reports.count("WARNING: DATA RACE"),
                        "report": reports[:6000], "fatal": ("fatal error:" in stderr or "panic:" in stderr), "stderr": stderr[-3000:] if rc not in (0, 66) else ""})
    return res


MODE = {"N": "Free", "R": "HoldR", "W": "HoldW"}
# accesses ordered by something other than the mutex: (function, object, async context) -> justification (reviewed; part of the trusted base)
EXEMPT = {
    ("startJob", "PipelineJob.sched", "go in startJob"):
        "the job goroutine reads job.sched once at its start: written under the write lock before the go statement (happens-before), "
        "cleared only by JobCompleted, which this same goroutine calls after Schedule returned",
}
REQUIRED_ENTRIES = ["ScheduleAsync", "CancelJob", "ReadJob", "IterateJobs", "ListPipelines", "ReplaceDefinitions", "SaveToStore", "Shutdown",
                    "HandleTaskChange", "HandleStageChange", "JobCompleted", "StartDelayedJob"]
REQUIRED_OBJECTS = ["PipelineRunner.jobsByID", "PipelineRunner.jobsByPipeline", "PipelineRunner.waitListByPipeline", "PipelineRunner.defs",
                    "PipelineRunner.isShuttingDown", "PipelineJob.Canceled", "PipelineJob.Completed", "PipelineJob.sched", "jobTask.Status"]


def lock_table(ctx):
    """build and run the translator on the repository working tree; returns (rows, entries, problem)"""
    src = os.path.join(VERIF, "locktab")
    dst = os.path.join(ctx.run, "locktab-src")
    shutil.copytree(src, dst)
    binp = os.path.join(ctx.run, "locktab")
    rc, o = sh(["go", "build", "-o", binp, "."], cwd=dst, env=GOENV, timeout=600)
    if rc != 0:
        return None, None, "locktab does not build: " + o[-1500:]
    rc, o = sh("%s %s > %s/locktab.json 2> %s/locktab.err" % (binp, REPO, ctx.run, ctx.run), env=GOENV, timeout=600)
    if rc != 0:
        return None, None, "locktab failed: " + open(os.path.join(ctx.run, "locktab.err")).read()[-1500:]
    d = json.load(open(os.path.join(ctx.run, "locktab.json")))
    return d["rows"], d["entries"], (d.get("notes") or [])


def check_table(ctx, rows):
    """emit the table as Coq terms and let Coq decide which rows violate the discipline"""
    written = {r["object"] for r in rows if r["write"]}
    objs = sorted({r["object"] for r in rows})
    oid = {o: i for i, o in enumerate(objs)}
    terms = []
    for i, r in enumerate(rows):
        ex = (r["func"], r["object"], r.get("async", "")) in EXEMPT
        terms.append("(%d%%nat, Row %d%%nat %s %s %s %s)" % (i, oid[r["object"]], cq_bool(r["write"]), MODE[r["mode"]], cq_bool(r["object"] not in written), cq_bool(ex)))
    src = ("From stdpp Require Import list.\nFrom PV Require Import Locks.\n(* generated by tools/check_C13.py from harness locktab on %s *)\n" % REPO
           + "Definition table : list (nat * row) := [\n" + ";\n".join(terms) + "\n].\n"
           + "Definition bad := Eval vm_compute in offenders table.\nPrint bad.\n"
           + "Lemma table_checked : table_ok (map snd table) = bool_decide (offenders table = []).\nProof. vm_compute. reflexivity. Qed.\n")
    path = os.path.join(ctx.run, "LockTable.v")
    open(path, "w").write(src)
    rc, out = sh(["timeout", "600", "coqc", "-Q", COQ, "PV", "-w", "none", path], cwd=ctx.run)
    if rc != 0:
        ctx.log("coqc failed on LockTable.v:", out[-2000:])
        return None
    m = re.search(r"bad\s*=\s*(.*?)\s*:\s*list", out, re.S)
    return [int(x) for x in re.findall(r"\d+", m.group(1))] if m else None


def race_sites(report):
    """the (function, file:line) pairs of the first race report, for the replay file"""
    return re.findall(r"^\s+(github\.com/Flowpack/prunner[^\n]*)\n\s+(/[^\n]+:\d+)", report, re.M)[:8]


def main():
    ctx = Ctx("C13", sys.argv[1:])
    proof_ok = proof_evidence(ctx, extra_files=[])
    bins = build_harness(ctx, ["racerun"], race=True)
    if bins is None:
        violation(ctx, {"what": "harness does not build against the repository working tree", "broken": "correspondence racerun"}, found_input=False)
        finish(ctx)
    bins["racerun"] = bins.get("racerun") or os.path.join(ctx.run, "racerun-race")
    if ctx.replay:
        rp = json.load(open(ctx.replay if os.path.isabs(ctx.replay) else os.path.join(VERIF, ctx.replay)))
        if "seed" not in rp or "ms" not in rp:
            ctx.log("replay: this replay file names a broken theorem / correspondence, not an input")
            finish(ctx)
        # a race needs the right overlap: repeat the recorded run a few times
        for k in range(4):
            res = race_runs(ctx, bins, [(rp["seed"], rp["ms"], rp.get("workers", 12))])
            if res[0]["races"] or res[0]["fatal"] or res[0]["summary"].get("invariant_failures"):
                ctx.log("replay:", res[0]["report"][:600] or res[0]["stderr"][:600])
                violation(ctx, rp)
                break
        finish(ctx)
    q = ctx.tier == "quick"
    rows, entries, notes = lock_table(ctx)
    table_problem, offenders = None, []
    if rows is None:
        table_problem = notes
    else:
        missing = [e for e in REQUIRED_ENTRIES if e not in entries] + [o for o in REQUIRED_OBJECTS if o not in {r["object"] for r in rows}]
        if missing or len(rows) < 150 or notes:
            table_problem = "the translator no longer covers the runner: missing %s, %d rows, notes %s" % (missing, len(rows), notes[:3])
        off = check_table(ctx, rows)
        if off is None:
            table_problem = table_problem or "generated LockTable.v does not check"
        else:
            offenders = [rows[i] for i in off]
    runs = [(ctx.seed * 100 + k, 1500 if q else 4000, 12 if k % 2 == 0 else 24) for k in range(8 if q else 48)]
    res = race_runs(ctx, bins, runs)
    ops = {}
    for r in res:
        for k, v in (r["summary"].get("ops") or {}).items():
            ops[k] = ops.get(k, 0) + v
    ctx.coverage.update({
        "evaluations": len(res),
        "distinct_nontrivial": len([r for r in res if r["summary"]]),
        "rule": "-race build; 12/24 goroutines overlap ScheduleAsync, CancelJob, ReadJob (reading every field), IterateJobs, ListPipelines, ReplaceDefinitions "
                "(two definition sets), SaveToStore (retention by count and period, real JSON store), the HTTP handlers (jobs, detail, logs, schedule, cancel) for "
                "1.5 s (thorough 4 s) while jobs with 1-4 tasks run, fail, are canceled and call back; then Shutdown (forced after 20-100 ms) overlapping readers, "
                "late schedulers and saves",
        "operations": ops, "jobs": sum(r["summary"].get("jobs", 0) for r in res),
        "lock_table_rows": len(rows or []), "lock_table_entries": entries, "lock_table_offenders": offenders[:10], "lock_table_problem": table_problem,
        "lock_table_modes": {m: len([r for r in (rows or []) if r["mode"] == m]) for m in "NRW"},
        "lock_table_exemptions": [{"site": list(k), "why": v} for k, v in EXEMPT.items()],
        "traces_validated_against_impl": 1 if rows else 0,
        "race_reports": sum(r["races"] for r in res), "invariant_failures": [r["summary"].get("invariant_failures") for r in res if r["summary"].get("invariant_failures")], "fatal_errors": len([r for r in res if r["fatal"]]),
        "samples": [r["summary"] for r in res[:2]],
    })
    ctx.assumptions = ["the Go race detector reports races that occur in the explored executions (no false positives; misses races whose accesses did not overlap)",
                       "happens-before edges other than the runner mutex (channels, go statements, WaitGroup, atomics of the scheduler) are not modelled in Locks.v"]
    if not proof_ok:
        violation(ctx, {"what": "Coq development for C13 does not check", "broken": "Properties/C13.v or its dependencies"}, found_input=False)
    shown = 0
    for r in res:
        inv = r["summary"].get("invariant_failures") or {}
        if inv and shown < 3:
            shown += 1
            violation(ctx, {"what": "an operation saw an inconsistent state under concurrent use: %s" % inv, "seed": r["seed"], "ms": r["ms"], "workers": r["workers"]})
        elif (r["races"] or r["fatal"] or r["rc"] not in (0, 66)) and shown < 3:
            shown += 1
            violation(ctx, {"what": "data race / runtime fatal error under concurrent use of the runner" if (r["races"] or r["fatal"]) else "racerun failed (rc %s)" % r["rc"],
                            "seed": r["seed"], "ms": r["ms"], "workers": r["workers"], "sites": race_sites(r["report"]), "report": r["report"][:4000], "stderr": r["stderr"]})
    if (offenders or table_problem) and not shown:
        # the discipline is broken (or no longer established): look harder for a concrete race
        more = race_runs(ctx, bins, [(ctx.seed * 100 + 50 + k, 3000, 24 if k % 2 else 12) for k in range(8 if q else 24)])
        hit = [r for r in more if r["races"] or r["fatal"]]
        if hit:
            r = hit[0]
            violation(ctx, {"what": "data race / runtime fatal error under concurrent use of the runner", "seed": r["seed"], "ms": r["ms"], "workers": r["workers"],
                            "sites": race_sites(r["report"]), "report": r["report"][:4000], "lock_table_offenders": offenders[:10]})
        else:
            violation(ctx, {"what": "the lock table of prunner.go no longer satisfies the discipline (or could not be established), but the race detector reported nothing in %d stress runs" % (len(res) + len(more)),
                            "broken": "translation locktab -> Locks.table_ok (the hypothesis of C13_discipline_race_free / C13_sites_disciplined is not established for the current source)",
                            "offending_access_sites": offenders[:20], "problem": table_problem}, found_input=False)
    return ctx, res


if __name__ == "__main__":
    ctx, res = main()
    finish(ctx)

package definition

// Demonstration of defect D8 (see /verif/DESIGN.md section 5). Copy into /repo/definition as zz_defects_test.go.

import (
	"testing"

	"github.com/stretchr/testify/assert"
)

func TestDefectD8_EqualsIgnoresRenamedEnvKeyWithEmptyValue(t *testing.T) {
	a := TaskDef{Env: map[string]string{"A": ""}}
	b := TaskDef{Env: map[string]string{"B": ""}}
	assert.False(t, a.Equals(b), "task env with different keys must not be equal")
	pa := PipelineDef{Env: map[string]string{"A": ""}}
	pb := PipelineDef{Env: map[string]string{"B": ""}}
	assert.False(t, pa.Equals(pb), "pipeline env with different keys must not be equal")
}

package prunner

// Demonstrations of defects D1-D4 (see /verif/DESIGN.md section 5). Copy into /repo as zz_defects_test.go to run:
//   go test -vet=off -count=1 -run 'TestDefect' .

import (
	"context"
	"testing"
	"time"

	"github.com/stretchr/testify/assert"
	"github.com/stretchr/testify/require"
	"github.com/taskctl/taskctl/pkg/task"

	"github.com/Flowpack/prunner/definition"
	"github.com/Flowpack/prunner/taskctl"
	"github.com/Flowpack/prunner/test"
)

func TestDefectD1_DoubleStartAfterGraphError(t *testing.T) {
	defs := &definition.PipelinesDef{Pipelines: map[string]definition.PipelineDef{
		"p": {Concurrency: 2, Tasks: map[string]definition.TaskDef{"a": {Script: []string{"x"}}}, SourcePath: "f"},
	}}
	g := newGate()
	r, err := NewPipelineRunner(context.Background(), defs, g.runner(), nil, test.NewMockOutputStore())
	require.NoError(t, err)
	j1, _ := r.ScheduleAsync("p", ScheduleOpts{})
	j2, _ := r.ScheduleAsync("p", ScheduleOpts{})
	_, err = r.ScheduleAsync("p", ScheduleOpts{Variables: map[string]interface{}{"__jobID": "x"}})
	require.NoError(t, err)
	j3, _ := r.ScheduleAsync("p", ScheduleOpts{})
	j4, _ := r.ScheduleAsync("p", ScheduleOpts{})
	waitForStartedJobTask(t, r, j1.ID, "a")
	waitForStartedJobTask(t, r, j2.ID, "a")
	close(g.ch(j1.ID.String() + "/a"))
	waitForCompletedJob(t, r, j1.ID)
	waitForStartedJobTask(t, r, j3.ID, "a")
	close(g.ch(j2.ID.String() + "/a"))
	waitForCompletedJob(t, r, j2.ID)
	time.Sleep(200 * time.Millisecond)
	running := 0
	r.IterateJobs(func(j *PipelineJob) {
		if j.isRunning() {
			running++
		}
	})
	assert.LessOrEqual(t, running, 2)
	assert.Equal(t, 1, g.count(j3.ID.String()+"/a"), "task of job 3 must run once")
	_ = j4
}

func TestDefectD2_CanceledWaitingJobKeepsQueueSlot(t *testing.T) {
	defs := &definition.PipelinesDef{Pipelines: map[string]definition.PipelineDef{
		"p": {Concurrency: 1, QueueLimit: intPtr(1), Tasks: map[string]definition.TaskDef{"a": {Script: []string{"x"}}}, SourcePath: "f"},
	}}
	g := newGate()
	r, err := NewPipelineRunner(context.Background(), defs, g.runner(), nil, test.NewMockOutputStore())
	require.NoError(t, err)
	_, err = r.ScheduleAsync("p", ScheduleOpts{})
	require.NoError(t, err)
	j2, err := r.ScheduleAsync("p", ScheduleOpts{})
	require.NoError(t, err)
	require.NoError(t, r.CancelJob(j2.ID))
	_, err = r.ScheduleAsync("p", ScheduleOpts{})
	assert.NoError(t, err, "a canceled job must not occupy a queue slot")
}

func TestDefectD2b_CanceledDelayedHeadStrandsQueue(t *testing.T) {
	defs := &definition.PipelinesDef{Pipelines: map[string]definition.PipelineDef{
		"p": {Concurrency: 1, StartDelay: 50 * time.Millisecond, Tasks: map[string]definition.TaskDef{"a": {Script: []string{"x"}}}, SourcePath: "f"},
	}}
	g := newGate()
	r, err := NewPipelineRunner(context.Background(), defs, g.runner(), nil, test.NewMockOutputStore())
	require.NoError(t, err)
	j1, _ := r.ScheduleAsync("p", ScheduleOpts{})
	j2, _ := r.ScheduleAsync("p", ScheduleOpts{})
	require.NoError(t, r.CancelJob(j1.ID))
	time.Sleep(400 * time.Millisecond)
	var started bool
	_ = r.ReadJob(j2.ID, func(j *PipelineJob) { started = j.Start != nil })
	assert.True(t, started, "job behind a canceled delayed job must start after its delay")
}

func TestDefectD3_ReloadIntroducingDelayStrandsQueuedJob(t *testing.T) {
	mk := func(d time.Duration) *definition.PipelinesDef {
		return &definition.PipelinesDef{Pipelines: map[string]definition.PipelineDef{
			"p": {Concurrency: 1, StartDelay: d, Tasks: map[string]definition.TaskDef{"a": {Script: []string{"x"}}}, SourcePath: "f"},
		}}
	}
	g := newGate()
	r, err := NewPipelineRunner(context.Background(), mk(0), g.runner(), nil, test.NewMockOutputStore())
	require.NoError(t, err)
	j1, _ := r.ScheduleAsync("p", ScheduleOpts{})
	j2, _ := r.ScheduleAsync("p", ScheduleOpts{})
	waitForStartedJobTask(t, r, j1.ID, "a")
	r.ReplaceDefinitions(mk(time.Hour))
	close(g.ch(j1.ID.String() + "/a"))
	waitForCompletedJob(t, r, j1.ID)
	time.Sleep(200 * time.Millisecond)
	var started bool
	_ = r.ReadJob(j2.ID, func(j *PipelineJob) { started = j.Start != nil })
	assert.True(t, started, "job queued without delay must start when the slot is free")
}

func TestDefectD4_CancelBetweenTasksReportedAsSuccess(t *testing.T) {
	defs := &definition.PipelinesDef{Pipelines: map[string]definition.PipelineDef{
		"p": {Concurrency: 1, Tasks: map[string]definition.TaskDef{
			"a": {Script: []string{"x"}},
			"b": {Script: []string{"x"}, DependsOn: []string{"a"}},
		}, SourcePath: "f"},
	}}
	var r *PipelineRunner
	var jobID = make(chan *PipelineJob, 1)
	var err error
	r, err = NewPipelineRunner(context.Background(), defs, func(j *PipelineJob) taskctl.Runner {
		return &test.MockRunner{OnRun: func(tk *task.Task) error {
			if tk.Name == "a" {
				// cancel is acknowledged while a is about to finish and b has not been launched
				j := <-jobID
				require.NoError(t, r.CancelJob(j.ID))
				// let the cancel goroutine deliver before a returns
				time.Sleep(100 * time.Millisecond)
			}
			return nil
		}}
	}, nil, test.NewMockOutputStore())
	require.NoError(t, err)
	j, err := r.ScheduleAsync("p", ScheduleOpts{})
	require.NoError(t, err)
	jobID <- j
	waitForCompletedJob(t, r, j.ID)
	var canceled bool
	_ = r.ReadJob(j.ID, func(j *PipelineJob) { canceled = j.Canceled })
	assert.True(t, canceled, "job with acknowledged cancel must be reported canceled")
}

package main

func procMode(seed uint64, rounds int) {}

(** Properties of the abstract runner machine beyond the basic invariant: concurrency bound, the wait list is exactly
    the set of waiting jobs, admission decision table, monotonicity facts *)
From stdpp Require Import list sorting.
From Coq Require Import ZArith Lia.
From PV Require Import Runner proofs.RunnerBase proofs.RunnerInv.
Local Open Scope Z_scope.

Definition conc_of (s : rstate) (p : name) : nat := pd_conc (def_or_zero (rs_defs s) p).

(** ** running counts *)
Lemma rcounts_waiting p j : r_is_waiting j = true → rcounts p j = false.
Proof.
  intros [Hs Hc]%waiting_inv. unfold rcounts, r_is_running. rewrite Hs. by rewrite andb_false_r.
Qed.

Lemma count_pointwise s s' p :
  length (rs_jobs s') = length (rs_jobs s) →
  (∀ id j j', rs_jobs s !! id = Some j → rs_jobs s' !! id = Some j' → rcounts p j' = rcounts p j) →
  r_running_count s' p = r_running_count s p.
Proof.
  rewrite !r_running_count_eq. generalize (rs_jobs s) (rs_jobs s'). intros l l'. revert l'.
  induction l as [|x l IH]; intros [|y l'] Hlen H; simpl in *; try done.
  rewrite (H 0%nat x y eq_refl eq_refl).
  assert (IH' : length (List.filter (rcounts p) l') = length (List.filter (rcounts p) l)).
  { apply IH; [lia|]. intros id j j' Hj Hj'. by apply (H (S id)). }
  destruct (rcounts p x); simpl; lia.
Qed.

(** effect of try_start on the counts: the started job (if any) adds one to its pipeline *)
Lemma try_start_count s x j p :
  rs_jobs s !! x = Some j → r_is_waiting j = true → r_removed j = false → r_completed j = false →
  let s' := (r_try_start s x).1 in
  (r_running_count s' p = r_running_count s p ∧ (p ≠ r_pipe j ∨ r_gok j = false))
  ∨ (p = r_pipe j ∧ r_gok j = true ∧ r_running_count s' p = S (r_running_count s p)).
Proof.
  intros Hj Hw Hr Hco. pose proof Hw as [Hst Hcan]%waiting_inv. simpl.
  unfold r_try_start. rewrite (proj2 (r_find_Some s x j) (conj Hj Hr)), Hcan.
  assert (Hcomp : rcounts p j = false) by (by apply rcounts_waiting).
  destruct (r_gok j) eqn:Hg; cbn [fst].
  - pose proof (r_upd_count s x (r_started (rs_now s)) p j Hj) as Hc. rewrite Hcomp in Hc.
    unfold rcounts in Hc at 1. unfold r_is_running in Hc. simpl in Hc. rewrite Hr, Hcan, Hco in Hc. simpl in Hc.
    destruct (Nat.eqb_spec (r_pipe j) p) as [<-|Hne]; simpl in Hc.
    + right. split; [done|]. split; [done|]. lia.
    + left. split; [lia|]. left. congruence.
  - pose proof (r_upd_count s x r_failed p j Hj) as Hc. rewrite Hcomp in Hc.
    unfold rcounts in Hc at 1. unfold r_is_running in Hc. simpl in Hc. rewrite Hst in Hc. rewrite andb_false_r in Hc.
    left. split; [lia|]. by right.
Qed.

Lemma waiting_not_completed s x j : RInvX s x → ∀ id, rs_jobs s !! id = Some j → r_is_waiting j = true → r_completed j = false.
Proof.
  intros Hinv id Hj Hw. destruct (r_completed j) eqn:E; [|done].
  pose proof (inv_comp _ _ Hinv id j Hj E). congruence.
Qed.

(** the dequeue loop on [q] changes the count of [p] only by starting jobs while the count is below the limit *)
Lemma dequeue_loop_count fuel s q p :
  RInv s →
  let s' := r_dequeue_loop fuel s q in
  r_running_count s' p = r_running_count s p ∨
  (p = q ∧ (r_running_count s p < r_running_count s' p)%nat ∧ (r_running_count s' p <= conc_of s' p)%nat).
Proof.
  revert s. induction fuel as [|x0 fuel IH]; intros s Hinv; simpl; [by left|].
  destruct (wl_get (rs_wait s) q) as [|h rest] eqn:Hwl; [by left|].
  destruct (rs_jobs s !! h) as [j|] eqn:Hj; [|by left].
  destruct (bool_decide _ && negb (r_timer j)) eqn:Hel; [|by left].
  apply andb_true_iff in Hel as [Hact Ht]. apply negb_true_iff in Ht. apply bool_decide_eq_true in Hact.
  destruct (inv_wl _ _ Hinv q h) as (jh & Hjh & Hph & Hwh & Hrh); [rewrite Hwl; by left|].
  rewrite Hj in Hjh. injection Hjh as <-.
  set (s0 := r_set_wait s q rest).
  set (s1 := (r_try_start s0 h).1).
  assert (Hinv1 : RInv s1) by (by eapply dequeue_step_inv).
  destruct (try_start_frame s0 h) as (Hw1 & Hd1 & Hn1 & Hs1 & Hl1 & Ho1 & Hx1). fold s1 in Hw1, Hd1, Hn1, Hs1, Hl1, Ho1, Hx1.
  destruct (dequeue_loop_frame fuel s1 q Hinv1) as (Hd2 & _).
  assert (Hconc : conc_of (r_dequeue_loop fuel s1 q) p = conc_of s p).
  { unfold conc_of. by rewrite Hd2, Hd1. }
  apply resolve_start_iff in Hact as [Hlt _]. rewrite Hph in Hlt.
  pose proof (try_start_count s0 h j p Hj Hwh Hrh (waiting_not_completed _ _ _ Hinv h Hj Hwh)) as Hts. fold s1 in Hts.
  change (r_running_count s0 p) with (r_running_count s p) in Hts.
  specialize (IH s1 Hinv1). simpl in IH. fold s0 s1.
  destruct Hts as [[Hsame _]|(Hp & Hg & Hinc)].
  - destruct IH as [IH|(Hp & Hgt & Hle)]; [left; lia|right]. split; [done|]. split; [lia|]. by rewrite Hconc in *.
  - right. rewrite Hp, Hph. split; [done|]. rewrite Hp, Hph in Hinc, IH, Hconc.
    destruct IH as [IH|(_ & Hgt & Hle)].
    + split; [lia|]. rewrite Hconc, IH, Hinc. unfold conc_of. lia.
    + split; [lia|]. done.
Qed.

(** defs are changed by reload only *)
Lemma try_start_defs s id : rs_defs (r_try_start s id).1 = rs_defs s.
Proof. by destruct (try_start_frame s id) as (_ & -> & _). Qed.

Lemma dequeue_loop_defs fuel s p : rs_defs (r_dequeue_loop fuel s p) = rs_defs s.
Proof.
  revert s. induction fuel as [|x fuel IH]; intros s; simpl; [done|].
  destruct (wl_get (rs_wait s) p) as [|h rest]; [done|]. destruct (rs_jobs s !! h) as [j|]; [|done].
  destruct (bool_decide _ && _); [|done]. rewrite IH. by rewrite try_start_defs.
Qed.

Lemma schedule_defs s p0 gok sn : rs_defs (r_schedule s p0 gok sn).1 = rs_defs s.
Proof.
  unfold r_schedule. destruct (rs_shut s); [done|]. destruct (lookup_def (rs_defs s) p0) as [d|]; [|done].
  destruct (r_resolve_action s p0 false); try done; cbn [fst].
  - unfold r_start_job. destruct (r_try_start _ (length (rs_jobs s))) as [s2 failed] eqn:Hts.
    pose proof (try_start_defs (r_set_jobs s (rs_jobs s ++ [r_new_job s p0 d gok sn])) (length (rs_jobs s))) as Hd2.
    rewrite Hts in Hd2. simpl in Hd2.
    destruct failed; [|done]. unfold r_dequeue. by rewrite dequeue_loop_defs.
  - by destruct (last _).
Qed.

Lemma cancel_defs s id : rs_defs (r_cancel s id).1 = rs_defs s.
Proof.
  unfold r_cancel. destruct (r_find s id) as [j|]; [|done]. destruct (r_canceled j); [done|].
  destruct (r_completed j); [done|]. destruct (r_start j); cbn [fst].
  - by destruct (r_live j).
  - unfold r_dequeue. by rewrite dequeue_loop_defs.
Qed.

(** ** C01: the running count grows only up to the concurrency limit in force *)
Definition count_ok (s s' : rstate) (p : name) : Prop :=
  (r_running_count s' p <= r_running_count s p)%nat ∨ (r_running_count s' p <= conc_of s' p)%nat.

Lemma dequeue_count_ok s0 s q p :
  RInv s → (r_running_count s p <= r_running_count s0 p)%nat → count_ok s0 (r_dequeue s q) p.
Proof.
  intros Hinv Hle. destruct (dequeue_loop_count (wl_get (rs_wait s) q) s q p Hinv) as [H|(_ & _ & H)].
  - left. unfold r_dequeue. lia.
  - by right.
Qed.

Lemma upd_count_le s id f p :
  (∀ j, rcounts p (f j) = true → rcounts p j = true) → (r_running_count (r_upd s id f) p <= r_running_count s p)%nat.
Proof.
  intros Hf. destruct (rs_jobs s !! id) as [j|] eqn:Hj.
  - pose proof (r_upd_count s id f p j Hj) as Hc. specialize (Hf j).
    destruct (rcounts p (f j)) eqn:E1, (rcounts p j) eqn:E2; try lia; specialize (Hf eq_refl); done.
  - by rewrite r_upd_count_none.
Qed.

Lemma schedule_count_ok s p0 gok sn p : RInv s → count_ok s (r_schedule s p0 gok sn).1 p.
Proof.
  intros Hinv. unfold r_schedule.
  destruct (rs_shut s) eqn:Hshut; [by left|].
  destruct (lookup_def (rs_defs s) p0) as [d|] eqn:Hd; [|by left].
  set (nj := r_new_job s p0 d gok sn). set (id := length (rs_jobs s)).
  set (s1 := r_set_jobs s (rs_jobs s ++ [nj])).
  assert (Hc1 : r_running_count s1 p = r_running_count s p).
  { subst s1. rewrite count_app. rewrite rcounts_waiting; [lia|done]. }
  assert (Hnj : rs_jobs s1 !! id = Some nj) by (apply lookup_snoc_Some; by right).
  destruct (r_resolve_action s p0 false) eqn:Hact; cbn [fst]; try by left.
  - assert (Hinv1 : RInvX s1 (Some id)).
    { apply append_inv; try done. subst nj. simpl. intros Ht. apply Nat.ltb_ge in Ht. lia. }
    apply resolve_start_iff in Hact as [Hlt [Hdel|?]]; [|done].
    unfold def_or_zero in Hdel, Hlt. rewrite Hd in Hdel, Hlt. simpl in Hdel, Hlt.
    unfold r_start_job. destruct (r_try_start s1 id) as [s2 failed] eqn:Hts.
    assert (Hs2 : s2 = (r_try_start s1 id).1) by (by rewrite Hts).
    assert (Hinv2 : RInv s2).
    { rewrite Hs2. eapply try_start_inv; try done. subst nj. simpl. rewrite Hdel. simpl. lia. }
    pose proof (try_start_count s1 id nj p Hnj eq_refl eq_refl eq_refl) as Hc. rewrite <- Hs2 in Hc.
    destruct (try_start_frame s1 id) as (_ & Hd2 & _). rewrite <- Hs2 in Hd2.
    destruct Hc as [[Hsame _]|(Hp & Hg & Hinc)].
    + destruct failed; [apply dequeue_count_ok; [done|lia]|left; lia].
    + assert (Hle : (r_running_count s2 p <= conc_of s2 p)%nat).
      { unfold conc_of. rewrite Hd2. change (rs_defs s1) with (rs_defs s). unfold def_or_zero.
        subst p. change (r_pipe nj) with p0 in *. rewrite Hd. simpl. lia. }
      destruct failed; [|by right].
      destruct (dequeue_loop_count (wl_get (rs_wait s2) p0) s2 p0 p Hinv2) as [H|(_ & _ & H)]; [|by right].
      right. unfold r_dequeue. rewrite H.
      destruct (dequeue_loop_frame (wl_get (rs_wait s2) p0) s2 p0 Hinv2) as (Hd3 & _).
      unfold conc_of in *. by rewrite Hd3.
  - left. change (r_running_count (r_set_wait s1 p0 (wl_get (rs_wait s1) p0 ++ [id])) p) with (r_running_count s1 p). lia.
  - destruct (last (wl_get (rs_wait s1) p0)) as [prev|]; cbn [fst]; [|left; lia].
    left. change (r_running_count (r_set_wait (r_upd s1 prev r_cancel_notimer) p0 (removelast (wl_get (rs_wait s1) p0) ++ [id])) p)
      with (r_running_count (r_upd s1 prev r_cancel_notimer) p).
    etrans; [apply upd_count_le|lia].
    intros j. unfold rcounts, r_is_running. simpl. rewrite !andb_true_iff. intros [_ H]. destruct (r_start j); [|done].
    by rewrite andb_false_r in H.
Qed.

Lemma cancel_count_ok s id p : RInv s → count_ok s (r_cancel s id).1 p.
Proof.
  intros Hinv. unfold r_cancel.
  destruct (r_find s id) as [j|] eqn:Hf; [|by left].
  destruct (r_canceled j) eqn:Hcan; [by left|].
  destruct (r_completed j) eqn:Hcomp; [by left|].
  destruct (r_start j) as [t|] eqn:Hst; cbn [fst].
  - destruct (r_live j); [|by left]. left. by apply upd_count_le.
  - pose proof (cancel_inv s id Hinv) as Hinv'. unfold r_cancel in Hinv'. rewrite Hf, Hcan, Hcomp, Hst in Hinv'. cbn [fst] in Hinv'.
    (* the state before the dequeue satisfies the invariant as well: redo the two steps *)
    apply r_find_Some in Hf as [Hj Hr].
    set (s2 := r_set_wait (r_upd s id r_cancel_notimer) (r_pipe j) (remove_id id (wl_get (rs_wait (r_upd s id r_cancel_notimer)) (r_pipe j)))).
    assert (Hinv2 : RInv s2).
    { assert (Hw : r_is_waiting j = true) by (apply waiting_inv; done).
      assert (Hnw : r_is_waiting (r_cancel_notimer j) = false) by (unfold r_is_waiting; simpl; by rewrite Hst).
      subst s2. change (rs_wait (r_upd s id r_cancel_notimer)) with (rs_wait s).
      change (r_set_wait (r_upd s id r_cancel_notimer) (r_pipe j) (remove_id id (wl_get (rs_wait s) (r_pipe j))))
        with (r_upd (r_set_wait s (r_pipe j) (remove_id id (wl_get (rs_wait s) (r_pipe j)))) id r_cancel_notimer).
      assert (Hinv1 : RInvX (r_set_wait s (r_pipe j) (remove_id id (wl_get (rs_wait s) (r_pipe j)))) (Some id)).
      { eapply set_wait_inv; [exact Hinv| | | | |].
        - apply StronglySorted_filter. apply (inv_sorted _ _ Hinv).
        - intros i Hi. left. by apply elem_of_remove_id in Hi as [? _].
        - intros i Hi. destruct (decide (i = id)) as [->|Hne]; [by right|left]. by apply elem_of_remove_id.
        - done.
        - intros i [= <-]. split.
          + intros Hi. by apply elem_of_remove_id in Hi as [_ ?].
          + right. right. by rewrite Hj. }
      eapply (upd_inv _ (Some id) None id j); [exact Hinv1|exact Hj|..]; try done.
      all: try (simpl; rewrite ?Hst, ?Hcomp; done).
      all: try (simpl; intros Hl; destruct (inv_live _ _ Hinv id j Hj Hl) as ([? ?] & _); congruence).
      all: try by rewrite Hnw.
      all: try (unfold r_is_running; simpl; by rewrite Hst).
      all: try (simpl; rewrite wl_get_set_eq; intros Hi; by apply elem_of_remove_id in Hi as [_ ?]).
      all: try (right; done). }
    apply dequeue_count_ok; [done|].
    change (r_running_count s2 p) with (r_running_count (r_upd s id r_cancel_notimer) p).
    apply upd_count_le. intros j0. unfold rcounts, r_is_running. simpl. rewrite !andb_true_iff. intros [_ H].
    destruct (r_start j0); [|done]. by rewrite andb_false_r in H.
Qed.

Lemma fire_count_ok s id s' p : RInv s → r_fire s id = Some s' → count_ok s s' p.
Proof.
  intros Hinv. unfold r_fire.
  destruct (rs_jobs s !! id) as [j|] eqn:Hj; [|done].
  destruct (r_timer_due s j) eqn:Hdue; [|done].
  assert (Hc : (r_running_count (r_upd s id r_clear_timer) p <= r_running_count s p)%nat) by (by apply upd_count_le).
  assert (Hinv1 : RInv (r_upd s id r_clear_timer)).
  { assert (H : r_fire s id = Some (r_upd s id r_clear_timer) ∨ True) by (by right).
    apply andb_true_iff in Hdue as [Ht Hdue]. apply Z.leb_le in Hdue.
    eapply (upd_inv s None None id j); try done.
    all: try (simpl; by apply (inv_live _ _ Hinv id j)).
    all: try (simpl; by apply (inv_comp _ _ Hinv id j)).
    all: try (simpl; by apply (inv_creq _ _ Hinv id j)).
    all: try (by apply (inv_run _ _ Hinv id j)).
    all: try (simpl; intros t0 Ht0; by apply (inv_start _ _ Hinv id j t0)).
    - intros Hq. destruct (inv_wl _ _ Hinv _ _ Hq) as (j' & Hj' & _ & Hw' & _). rewrite Hj in Hj'. by injection Hj' as <-.
    - by left. }
  destruct (r_find s id) as [j'|]; [|intros [= <-]; by left].
  destruct (r_canceled j); intros [= <-]; [by left|]. by apply dequeue_count_ok.
Qed.

Lemma complete_count_ok s id ec s' p : RInv s → r_complete s id ec = Some s' → count_ok s s' p.
Proof.
  intros Hinv. unfold r_complete.
  destruct (rs_jobs s !! id) as [j|] eqn:Hj; [|done].
  destruct (r_live j) eqn:Hl; [|done].
  assert (Hc : (r_running_count (r_upd s id (r_complete_job (rs_now s) ec)) p <= r_running_count s p)%nat).
  { apply upd_count_le. intros j0. unfold rcounts, r_is_running. simpl. rewrite !andb_true_iff. intros [_ H].
    destruct (r_start j0); done. }
  assert (Hinv1 : RInv (r_upd s id (r_complete_job (rs_now s) ec))).
  { assert (Hs : r_complete s id ec = Some (if r_removed j then r_upd s id (r_complete_job (rs_now s) ec)
                                            else r_dequeue (r_upd s id (r_complete_job (rs_now s) ec)) (r_pipe j))).
    { unfold r_complete. rewrite Hj, Hl. by destruct (r_removed j). }
    destruct (inv_live _ _ Hinv id j Hj Hl) as ([t Ht] & Hcomp & Hcan).
    assert (Hnw : r_is_waiting (r_complete_job (rs_now s) ec j) = false) by (unfold r_is_waiting; simpl; by rewrite Ht).
    eapply (upd_inv s None None id j); try done.
    all: try (simpl; by eauto).
    all: try (simpl; intros t0 Ht0; by apply (inv_start _ _ Hinv id j t0)).
    all: try by left.
    all: try by rewrite Hnw.
    all: try (simpl; intros Hcq _; rewrite Hcq; by rewrite orb_true_r).
    all: try (unfold r_is_running; simpl; by rewrite Ht).
    intros Hq. destruct (inv_wl _ _ Hinv _ _ Hq) as (j' & Hj' & _ & Hw' & _). rewrite Hj in Hj'. injection Hj' as <-.
    apply waiting_inv in Hw' as [? _]. congruence. }
  destruct (r_removed j); intros [= <-]; [by left|]. by apply dequeue_count_ok.
Qed.

Lemma imap_count_le (f : nat → rjob → rjob) l p :
  (∀ i j, rcounts p (f i j) = true → rcounts p j = true) →
  (length (List.filter (rcounts p) (imap f l)) <= length (List.filter (rcounts p) l))%nat.
Proof.
  revert f. induction l as [|x l IH]; intros f Hf; simpl; [done|].
  specialize (IH (f ∘ S)). simpl in IH. specialize (Hf 0%nat x) as Hx.
  assert (IH' := IH (fun i j => Hf (S i) j)).
  destruct (rcounts p (f 0%nat x)) eqn:E1; destruct (rcounts p x) eqn:E2; simpl; try lia; specialize (Hx eq_refl); done.
Qed.

Lemma save_count_ok s rm p : count_ok s (r_save s rm) p.
Proof.
  left. rewrite !r_running_count_eq. unfold r_save. simpl. apply imap_count_le.
  intros i j. destruct (in_ids i rm); [|done]. unfold rcounts. simpl. by rewrite andb_false_r.
Qed.

Lemma restart_count_ok s js s' p : r_restart s js = Some s' → count_ok s s' p.
Proof.
  unfold r_restart. destruct (forallb _ js) eqn:H; [|done]. intros [= <-]. left.
  rewrite !r_running_count_eq. simpl.
  assert (Hz : length (List.filter (rcounts p) js) = 0%nat); [|lia].
  rewrite forallb_forall in H. induction js as [|j js IH]; simpl; [done|].
  assert (Hj : r_terminal (rs_now s) j = true) by (apply H; by left).
  apply terminal_spec in Hj as (Hr & _). unfold rcounts. rewrite Hr, andb_false_r. apply IH. intros x Hx. apply H. by right.
Qed.

Lemma shutdown_count_ok s p : RInv s → count_ok s (r_shutdown s) p.
Proof.
  intros Hinv. left. rewrite !r_running_count_eq. unfold r_shutdown. simpl. apply imap_count_le.
  intros i j. destruct (in_ids i _); [|done]. unfold rcounts, r_is_running. simpl. destruct (r_start j); by rewrite ?andb_false_r.
Qed.

Lemma cancel_all_defs s : rs_defs (r_cancel_all s) = rs_defs s.
Proof.
  unfold r_cancel_all. generalize (seq 0 (length (rs_jobs s))). intros l. revert s.
  induction l as [|id l IH]; intros s; simpl; [done|]. rewrite IH. apply cancel_defs.
Qed.

Lemma cancel_all_count_ok s p : RInv s → count_ok s (r_cancel_all s) p.
Proof.
  unfold r_cancel_all. generalize (seq 0 (length (rs_jobs s))). intros l.
  assert (H : ∀ s0 s, RInv s → rs_defs s = rs_defs s0 → count_ok s0 s p →
              count_ok s0 (fold_left (fun s id => (r_cancel s id).1) l s) p).
  { induction l as [|id l IH]; intros s0 s1 Hinv Hd Hc; simpl; [done|].
    apply IH; [by apply cancel_inv|by rewrite cancel_defs|].
    destruct (cancel_count_ok s1 id p Hinv) as [H|H]; [|right; done].
    destruct Hc as [Hc|Hc]; [left; lia|right]. unfold conc_of in *. rewrite cancel_defs. rewrite Hd in *. lia. }
  intros Hinv. apply H; [done|done|by left].
Qed.

Theorem rstep_count_ok s e s' r p : RInv s → rstep s e = Some (s', r) → count_ok s s' p.
Proof.
  intros Hinv. destruct e as [rm|js| | |p0 gok sn|id|d|id|ds|id ec]; simpl.
  - intros [= <- <-]. apply save_count_ok.
  - destruct (r_restart s js) as [s1|] eqn:Hf; simpl; [|done]. intros [= <- <-]. by eapply restart_count_ok.
  - intros [= <- <-]. by apply shutdown_count_ok.
  - intros [= <- <-]. by apply cancel_all_count_ok.
  - intros [= Heq]. replace s' with (r_schedule s p0 gok sn).1 by (by rewrite Heq). by apply schedule_count_ok.
  - intros [= Heq]. replace s' with (r_cancel s id).1 by (by rewrite Heq). by apply cancel_count_ok.
  - intros [= <- <-]. by left.
  - destruct (r_fire s id) as [s1|] eqn:Hf; simpl; [|done]. intros [= <- <-]. by eapply fire_count_ok.
  - intros [= <- <-]. by left.
  - destruct (r_complete s id ec) as [s1|] eqn:Hf; simpl; [|done]. intros [= <- <-]. by eapply complete_count_ok.
Qed.

Lemma rstep_defs s e s' r : rstep s e = Some (s', r) → (∀ ds, e ≠ RvReload ds) → rs_defs s' = rs_defs s.
Proof.
  intros Hs Hnr. destruct e as [rm|js| | |p0 gok sn|id|d|id|ds|id ec]; simpl in Hs.
  - by injection Hs as <- _.
  - unfold r_restart in Hs. destruct (forallb _ js); [|done]. by injection Hs as <- _.
  - by injection Hs as <- _.
  - injection Hs as <- _. apply cancel_all_defs.
  - injection Hs as Heq. replace s' with (r_schedule s p0 gok sn).1 by (by rewrite Heq). apply schedule_defs.
  - injection Hs as Heq. replace s' with (r_cancel s id).1 by (by rewrite Heq). apply cancel_defs.
  - by injection Hs as <- _.
  - unfold r_fire in Hs. destruct (rs_jobs s !! id) as [j|]; [|done]. destruct (r_timer_due s j); [|done].
    destruct (r_find s id); simpl in Hs.
    + destruct (r_canceled j); injection Hs as <- _; [done|]. unfold r_dequeue. by rewrite dequeue_loop_defs.
    + by injection Hs as <- _.
  - by destruct (Hnr ds).
  - unfold r_complete in Hs. destruct (rs_jobs s !! id) as [j|]; [|done]. destruct (r_live j); [|done].
    destruct (r_removed j); injection Hs as <- _; [done|]. unfold r_dequeue. by rewrite dequeue_loop_defs.
Qed.

(** with an unchanged limit the count never exceeds it *)
Definition bounded (s : rstate) : Prop := ∀ p, (r_running_count s p <= conc_of s p)%nat.

Lemma rstep_bounded s e s' r :
  RInv s → bounded s → rstep s e = Some (s', r) → (∀ ds, e ≠ RvReload ds) → bounded s'.
Proof.
  intros Hinv Hb Hs Hnr p.
  pose proof (rstep_defs s e s' r Hs Hnr) as Hd.
  destruct (rstep_count_ok s e s' r p Hinv Hs) as [H|H]; [|done].
  specialize (Hb p). unfold conc_of in *. rewrite Hd. lia.
Qed.

(** ** the wait list is exactly the set of waiting jobs (C03, C05) *)
Definition waiting_ids (s : rstate) (p : name) : list nat :=
  List.filter (fun id => match rs_jobs s !! id with
                         | Some j => Nat.eqb (r_pipe j) p && r_is_waiting j && negb (r_removed j)
                         | None => false end) (seq 0 (length (rs_jobs s))).

Lemma StronglySorted_seq a n : StronglySorted lt (seq a n).
Proof.
  revert a. induction n as [|n IH]; intros a; simpl; [constructor|]. constructor; [apply IH|].
  apply Forall_forall. intros x Hx. apply elem_of_list_In, in_seq in Hx. lia.
Qed.

Lemma sorted_same_elems (l1 l2 : list nat) :
  StronglySorted lt l1 → StronglySorted lt l2 → (∀ x, x ∈ l1 ↔ x ∈ l2) → l1 = l2.
Proof.
  revert l2. induction l1 as [|a l1 IH]; intros l2 H1 H2 Heq.
  - destruct l2 as [|b l2]; [done|]. exfalso. specialize (Heq b). apply (not_elem_of_nil b), Heq. by left.
  - destruct l2 as [|b l2]. { exfalso. apply (not_elem_of_nil a), Heq. by left. }
    apply StronglySorted_inv in H1 as [H1 Ha]. apply StronglySorted_inv in H2 as [H2 Hb].
    rewrite Forall_forall in Ha, Hb.
    assert (a = b).
    { assert (Hab : a ∈ b :: l2) by (apply Heq; by left). assert (Hba : b ∈ a :: l1) by (apply Heq; by left).
      apply elem_of_cons in Hab as [?|Hab]; [done|]. apply elem_of_cons in Hba as [?|Hba]; [done|].
      specialize (Ha b Hba). specialize (Hb a Hab). lia. }
    subst b. f_equal. apply IH; try done. intros x. split; intros Hx.
    + assert (Hx' : x ∈ a :: l2) by (apply Heq; by right). apply elem_of_cons in Hx' as [->|?]; [|done].
      specialize (Ha a Hx). lia.
    + assert (Hx' : x ∈ a :: l1) by (apply Heq; by right). apply elem_of_cons in Hx' as [->|?]; [|done].
      specialize (Hb a Hx). lia.
Qed.

Theorem wait_list_is_waiting_set s p : RInv s → rs_shut s = false → wl_get (rs_wait s) p = waiting_ids s p.
Proof.
  intros Hinv Hs. apply sorted_same_elems.
  - apply (inv_sorted _ _ Hinv).
  - apply StronglySorted_filter, StronglySorted_seq.
  - intros id. unfold waiting_ids. rewrite (elem_of_list_In (List.filter _ _) id), filter_In, in_seq. split.
    + intros Hin. destruct (inv_wl _ _ Hinv p id Hin) as (j & Hj & Hp & Hw & Hr).
      split; [apply lookup_lt_Some in Hj; lia|]. rewrite Hj, Hp, Hw, Hr, Nat.eqb_refl. done.
    + intros [_ H]. destruct (rs_jobs s !! id) as [j|] eqn:Hj; [|done].
      apply andb_true_iff in H as [H Hr]. apply andb_true_iff in H as [Hp Hw].
      apply Nat.eqb_eq in Hp. apply negb_true_iff in Hr. subst p. by apply (inv_queued _ _ Hinv Hs id j).
Qed.

(** ** monotonicity: a job that was canceled before it started never starts; started / completed / canceled are stable *)
Definition job_mono (j j' : rjob) : Prop :=
  r_pipe j' = r_pipe j ∧ r_created j' = r_created j ∧ r_delay j' = r_delay j
  ∧ (r_canceled j = true → r_canceled j' = true)
  ∧ (r_canceled j = true → r_start j = None → r_start j' = None)
  ∧ (is_Some (r_start j) → is_Some (r_start j'))
  ∧ (r_completed j = true → r_completed j' = true)
  ∧ (r_creq j = true → r_creq j' = true)
  ∧ r_snap j' = r_snap j ∧ r_gok j' = r_gok j
  ∧ (r_removed j = true → r_removed j' = true).

Definition state_mono (s s' : rstate) : Prop :=
  ∀ id j, rs_jobs s !! id = Some j → ∃ j', rs_jobs s' !! id = Some j' ∧ job_mono j j'.

Lemma job_mono_refl j : job_mono j j. Proof. repeat split; auto. Qed.
Lemma job_mono_trans j1 j2 j3 : job_mono j1 j2 → job_mono j2 j3 → job_mono j1 j3.
Proof.
  intros (?&?&?&Hc1&Hs1&Ht1&Hk1&Hq1&?&?&?) (?&?&?&Hc2&Hs2&Ht2&Hk2&Hq2&?&?&?). repeat split; try congruence; auto.
Qed.
Lemma state_mono_refl s : state_mono s s. Proof. intros id j Hj. exists j. split; [done|apply job_mono_refl]. Qed.
Lemma state_mono_trans s1 s2 s3 : state_mono s1 s2 → state_mono s2 s3 → state_mono s1 s3.
Proof.
  intros H1 H2 id j Hj. destruct (H1 id j Hj) as (j2 & Hj2 & Hm1). destruct (H2 id j2 Hj2) as (j3 & Hj3 & Hm2).
  exists j3. split; [done|]. by eapply job_mono_trans.
Qed.

Lemma upd_mono s id f : (∀ j, rs_jobs s !! id = Some j → job_mono j (f j)) → state_mono s (r_upd s id f).
Proof.
  intros Hf id' j Hj. rewrite r_upd_lookup. destruct (decide (id = id')) as [<-|Hne].
  - rewrite Hj. simpl. exists (f j). split; [done|]. by apply Hf.
  - exists j. split; [done|apply job_mono_refl].
Qed.

Lemma try_start_mono s id : state_mono s (r_try_start s id).1.
Proof.
  unfold r_try_start. destruct (r_find s id) as [j|] eqn:Hf; [|apply state_mono_refl].
  apply r_find_Some in Hf as [Hj Hr].
  destruct (r_canceled j) eqn:Hc; [apply state_mono_refl|].
  destruct (r_gok j); cbn [fst]; apply upd_mono; intros j0 Hj0; rewrite Hj in Hj0; injection Hj0 as <-.
  - repeat split; simpl; try done; try congruence; eauto.
  - repeat split; simpl; auto.
Qed.

Lemma set_wait_mono s p l : state_mono s (r_set_wait s p l).
Proof. intros id j Hj. exists j. split; [done|apply job_mono_refl]. Qed.

Lemma dequeue_loop_mono fuel s p : state_mono s (r_dequeue_loop fuel s p).
Proof.
  revert s. induction fuel as [|x fuel IH]; intros s; simpl; [apply state_mono_refl|].
  destruct (wl_get (rs_wait s) p) as [|h rest]; [apply state_mono_refl|].
  destruct (rs_jobs s !! h) as [j|]; [|apply state_mono_refl].
  destruct (bool_decide _ && _); [|apply state_mono_refl].
  eapply state_mono_trans; [|apply IH]. eapply state_mono_trans; [apply (set_wait_mono s p rest)|apply try_start_mono].
Qed.

Lemma append_mono s j : state_mono s (r_set_jobs s (rs_jobs s ++ [j])).
Proof. intros id j0 Hj0. exists j0. split; [|apply job_mono_refl]. simpl. apply lookup_app_l_Some. done. Qed.

Lemma schedule_mono s p gok sn : state_mono s (r_schedule s p gok sn).1.
Proof.
  unfold r_schedule. destruct (rs_shut s); [apply state_mono_refl|].
  destruct (lookup_def (rs_defs s) p) as [d|]; [|apply state_mono_refl].
  destruct (r_resolve_action s p false); cbn [fst]; try apply state_mono_refl.
  - eapply state_mono_trans; [apply append_mono|]. unfold r_start_job.
    destruct (r_try_start _ (length (rs_jobs s))) as [s2 failed] eqn:Hts.
    pose proof (try_start_mono (r_set_jobs s (rs_jobs s ++ [r_new_job s p d gok sn])) (length (rs_jobs s))) as Hm.
    rewrite Hts in Hm. simpl in Hm. destruct failed; [|done].
    eapply state_mono_trans; [exact Hm|apply dequeue_loop_mono].
  - eapply state_mono_trans; [apply append_mono|apply set_wait_mono].
  - eapply state_mono_trans; [apply append_mono|]. destruct (last _) as [prev|]; cbn [fst]; [|apply state_mono_refl].
    eapply state_mono_trans; [|apply set_wait_mono]. apply upd_mono. intros j _. repeat split; simpl; auto.
Qed.

Lemma cancel_mono s id : state_mono s (r_cancel s id).1.
Proof.
  unfold r_cancel. destruct (r_find s id) as [j|]; [|apply state_mono_refl].
  destruct (r_canceled j); [apply state_mono_refl|]. destruct (r_completed j); [apply state_mono_refl|].
  destruct (r_start j); cbn [fst].
  - destruct (r_live j); [|apply state_mono_refl]. apply upd_mono. intros j0 _. repeat split; simpl; auto.
  - eapply state_mono_trans; [|apply dequeue_loop_mono]. eapply state_mono_trans; [|apply set_wait_mono].
    apply upd_mono. intros j0 _. repeat split; simpl; auto.
Qed.

Lemma imap_mono s (f : nat → rjob → rjob) s' :
  rs_jobs s' = imap f (rs_jobs s) → (∀ i j, job_mono j (f i j)) → state_mono s s'.
Proof.
  intros Hj Hf id j Hid. rewrite Hj, list_lookup_imap, Hid. simpl. exists (f id j). split; [done|apply Hf].
Qed.

Lemma cancel_all_mono s : state_mono s (r_cancel_all s).
Proof.
  unfold r_cancel_all. generalize (seq 0 (length (rs_jobs s))). intros l. revert s.
  induction l as [|id l IH]; intros s; simpl; [apply state_mono_refl|].
  eapply state_mono_trans; [apply cancel_mono|apply IH].
Qed.

Lemma rstep_mono s e s' r : rstep s e = Some (s', r) → (∀ js, e ≠ RvRestart js) → state_mono s s'.
Proof.
  intros Hs Hnr. destruct e as [rm|js| | |p gok sn|id|d|id|ds|id ec]; simpl in Hs.
  - injection Hs as <- _. eapply (imap_mono s (fun i j => if in_ids i rm then r_remove j else j)); [done|].
    intros i j. destruct (in_ids i rm); [repeat split; simpl; auto|apply job_mono_refl].
  - by destruct (Hnr js).
  - injection Hs as <- _. eapply (imap_mono s (fun i j => if in_ids i (wl_get (rs_wait s) (r_pipe j)) then r_set_canceled j else j)); [done|].
    intros i j. destruct (in_ids i _); [repeat split; simpl; auto|apply job_mono_refl].
  - injection Hs as <- _. apply cancel_all_mono.
  - injection Hs as Heq. replace s' with (r_schedule s p gok sn).1 by (by rewrite Heq). apply schedule_mono.
  - injection Hs as Heq. replace s' with (r_cancel s id).1 by (by rewrite Heq). apply cancel_mono.
  - injection Hs as <- _. intros id' j Hj. exists j. split; [done|apply job_mono_refl].
  - revert Hs. unfold r_fire. destruct (rs_jobs s !! id) as [j|]; [|done]. destruct (r_timer_due s j); [|done].
    assert (Hu : state_mono s (r_upd s id r_clear_timer)) by (apply upd_mono; intros j0 _; repeat split; simpl; auto).
    destruct (r_find s id); simpl.
    + destruct (r_canceled j); intros [= <- <-]; [done|]. eapply state_mono_trans; [exact Hu|apply dequeue_loop_mono].
    + by intros [= <- <-].
  - injection Hs as <- _. intros id' j Hj. exists j. split; [done|apply job_mono_refl].
  - revert Hs. unfold r_complete. destruct (rs_jobs s !! id) as [j|]; [|done]. destruct (r_live j); [|done].
    assert (Hu : state_mono s (r_upd s id (r_complete_job (rs_now s) ec))).
    { apply upd_mono. intros j0 _. repeat split; simpl; auto. intros ->. done. }
    destruct (r_removed j); intros [= <- <-]; [done|]. eapply state_mono_trans; [exact Hu|apply dequeue_loop_mono].
Qed.

(** a cancel request on a running job is honoured when the job completes *)
Lemma complete_honours_creq s id ec s' j :
  r_complete s id ec = Some s' → rs_jobs s !! id = Some j → r_creq j = true →
  ∃ j', rs_jobs s' !! id = Some j' ∧ r_canceled j' = true ∧ r_completed j' = true.
Proof.
  unfold r_complete. intros H Hj Hq. rewrite Hj in H. destruct (r_live j); [|done].
  set (s1 := r_upd s id (r_complete_job (rs_now s) ec)) in *.
  assert (H1 : rs_jobs s1 !! id = Some (r_complete_job (rs_now s) ec j)).
  { subst s1. rewrite r_upd_lookup. destruct (decide (id = id)); [|done]. by rewrite Hj. }
  assert (Hm : state_mono s1 s').
  { destruct (r_removed j); injection H as <-; [apply state_mono_refl|apply dequeue_loop_mono]. }
  destruct (Hm id _ H1) as (j' & Hj' & (_ & _ & _ & Hc & _ & _ & Hk & _ & _ & _ & _)).
  exists j'. split; [done|]. split; [apply Hc|apply Hk]; simpl; [|done]. rewrite Hq. by rewrite orb_true_r.
Qed.

(** ** C06: the dequeue loop consumes a prefix of the wait list; only jobs of that prefix change *)
Lemma dequeue_loop_prefix fuel s p :
  RInv s →
  ∃ k, wl_get (rs_wait (r_dequeue_loop fuel s p)) p = drop k (wl_get (rs_wait s) p)
       ∧ ∀ id, rs_jobs (r_dequeue_loop fuel s p) !! id ≠ rs_jobs s !! id → id ∈ take k (wl_get (rs_wait s) p).
Proof.
  revert s. induction fuel as [|x0 fuel IH]; intros s Hinv; simpl.
  { exists 0%nat. split; [done|]. intros id H. done. }
  destruct (wl_get (rs_wait s) p) as [|h rest] eqn:Hwl.
  { exists 0%nat. rewrite Hwl. split; [done|]. intros id H. done. }
  destruct (rs_jobs s !! h) as [j|] eqn:Hj.
  2:{ exists 0%nat. rewrite Hwl. split; [done|]. intros id H. done. }
  destruct (bool_decide _ && negb (r_timer j)) eqn:Hel.
  2:{ exists 0%nat. rewrite Hwl. split; [done|]. intros id H. done. }
  apply andb_true_iff in Hel as [_ Ht]. apply negb_true_iff in Ht.
  set (s1 := (r_try_start (r_set_wait s p rest) h).1).
  assert (Hinv1 : RInv s1) by (by eapply dequeue_step_inv).
  destruct (try_start_frame (r_set_wait s p rest) h) as (Hw1 & _ & _ & _ & _ & Ho1 & _). fold s1 in Hw1, Ho1.
  destruct (IH s1 Hinv1) as (k & Hk & Hch).
  exists (S k). simpl. split.
  - rewrite Hk, Hw1. simpl. by rewrite wl_get_set_eq.
  - intros id Hne. destruct (decide (id = h)) as [->|Hnh]; [by left|]. right.
    assert (Hwl1 : wl_get (rs_wait s1) p = rest) by (rewrite Hw1; simpl; by rewrite wl_get_set_eq).
    rewrite <- Hwl1. apply Hch. intros Heq. apply Hne. rewrite Heq. by apply Ho1.
Qed.

Lemma sorted_take_closed (l : list nat) k x y :
  StronglySorted lt l → x ∈ take k l → y ∈ l → (y < x)%nat → y ∈ take k l.
Proof.
  revert k. induction l as [|a l IH]; intros k Hs Hx Hy Hlt; [by destruct k|].
  apply StronglySorted_inv in Hs as [Hs Ha]. rewrite Forall_forall in Ha.
  destruct k as [|k]; simpl in *; [by apply elem_of_nil in Hx|].
  apply elem_of_cons in Hy as [->|Hy]; [by left|].
  apply elem_of_cons in Hx as [->|Hx]; [specialize (Ha y Hy); lia|].
  right. by eapply IH.
Qed.

Lemma sorted_take_drop_disjoint (l : list nat) k x : StronglySorted lt l → x ∈ take k l → x ∉ drop k l.
Proof.
  revert k. induction l as [|a l IH]; intros k Hs Hx; [destruct k; by apply elem_of_nil in Hx|].
  apply StronglySorted_inv in Hs as [Hs Ha]. rewrite Forall_forall in Ha.
  destruct k as [|k]; simpl in *; [by apply elem_of_nil in Hx|].
  apply elem_of_cons in Hx as [->|Hx]; [|by apply IH].
  intros Hd. assert (H : a ∈ l).
  { apply elem_of_list_lookup in Hd as [i Hi]. rewrite lookup_drop in Hi. by eapply elem_of_list_lookup_2. }
  specialize (Ha a H). lia.
Qed.

(** whenever the dequeue loop changes job [id] of the wait list (starts it, or finds it unstartable), every job queued
    before it has left the wait list as well *)
Lemma dequeue_fifo s p id id' :
  RInv s → id ∈ wl_get (rs_wait s) p → id' ∈ wl_get (rs_wait s) p → (id' < id)%nat →
  rs_jobs (r_dequeue s p) !! id ≠ rs_jobs s !! id →
  id' ∉ wl_get (rs_wait (r_dequeue s p)) p.
Proof.
  intros Hinv Hid Hid' Hlt Hch. unfold r_dequeue in *.
  destruct (dequeue_loop_prefix (wl_get (rs_wait s) p) s p Hinv) as (k & Hk & Hpre).
  rewrite Hk. apply sorted_take_drop_disjoint; [apply (inv_sorted _ _ Hinv)|].
  eapply sorted_take_closed; [apply (inv_sorted _ _ Hinv)|by apply Hpre|done|done].
Qed.

(** ** C05: wait lists grow only by the append decision *)
Lemma dequeue_wl_len s p q : RInv s → (length (wl_get (rs_wait (r_dequeue s p)) q) <= length (wl_get (rs_wait s) q))%nat.
Proof.
  intros Hinv. unfold r_dequeue. destruct (decide (q = p)) as [->|Hne].
  - destruct (dequeue_loop_prefix (wl_get (rs_wait s) p) s p Hinv) as (k & -> & _). rewrite drop_length. lia.
  - destruct (dequeue_loop_frame (wl_get (rs_wait s) p) s p Hinv) as (_ & _ & _ & _ & Hq & _). by rewrite Hq.
Qed.

Lemma try_start_wait s id : rs_wait (r_try_start s id).1 = rs_wait s.
Proof. by destruct (try_start_frame s id) as (-> & _). Qed.

Lemma filter_length_le {A} (P : A → bool) (l : list A) : (length (List.filter P l) <= length l)%nat.
Proof. induction l as [|x l IH]; simpl; [done|]. destruct (P x); simpl; lia. Qed.

Lemma cancel_wl_len s id q : RInv s → (length (wl_get (rs_wait (r_cancel s id).1) q) <= length (wl_get (rs_wait s) q))%nat.
Proof.
  intros Hinv.
  pose proof (cancel_inv s id Hinv) as Hinv'.
  unfold r_cancel in *. destruct (r_find s id) as [j|] eqn:Hf; [|done].
  destruct (r_canceled j) eqn:Hcan; [done|]. destruct (r_completed j) eqn:Hcomp; [done|].
  destruct (r_start j) eqn:Hst; cbn [fst] in *.
  + by destruct (r_live j).
  + (* the intermediate state satisfies the invariant, see cancel_count_ok; here only lengths matter *)
    set (s2 := r_set_wait (r_upd s id r_cancel_notimer) (r_pipe j) (remove_id id (wl_get (rs_wait (r_upd s id r_cancel_notimer)) (r_pipe j)))) in *.
    assert (Hlen2 : (length (wl_get (rs_wait s2) q) <= length (wl_get (rs_wait s) q))%nat).
    { subst s2. simpl. destruct (decide (q = r_pipe j)) as [->|Hne].
      - rewrite wl_get_set_eq. apply filter_length_le.
      - by rewrite wl_get_set_ne. }
    assert (Hinv2 : RInv s2).
    { apply r_find_Some in Hf as [Hj Hr].
      assert (Hw : r_is_waiting j = true) by (apply waiting_inv; done).
      assert (Hnw : r_is_waiting (r_cancel_notimer j) = false) by (unfold r_is_waiting; simpl; by rewrite Hst).
      subst s2. change (rs_wait (r_upd s id r_cancel_notimer)) with (rs_wait s).
      change (r_set_wait (r_upd s id r_cancel_notimer) (r_pipe j) (remove_id id (wl_get (rs_wait s) (r_pipe j))))
        with (r_upd (r_set_wait s (r_pipe j) (remove_id id (wl_get (rs_wait s) (r_pipe j)))) id r_cancel_notimer).
      assert (Hinv1 : RInvX (r_set_wait s (r_pipe j) (remove_id id (wl_get (rs_wait s) (r_pipe j)))) (Some id)).
      { eapply set_wait_inv; [exact Hinv| | | | |].
        - apply StronglySorted_filter. apply (inv_sorted _ _ Hinv).
        - intros i Hi. left. by apply elem_of_remove_id in Hi as [? _].
        - intros i Hi. destruct (decide (i = id)) as [->|Hne]; [by right|left]. by apply elem_of_remove_id.
        - done.
        - intros i [= <-]. split.
          + intros Hi. by apply elem_of_remove_id in Hi as [_ ?].
          + right. right. by rewrite Hj. }
      eapply (upd_inv _ (Some id) None id j); [exact Hinv1|exact Hj|..]; try done.
      all: try (simpl; rewrite ?Hst, ?Hcomp; done).
      all: try (simpl; intros Hl; destruct (inv_live _ _ Hinv id j Hj Hl) as ([? ?] & _); congruence).
      all: try by rewrite Hnw.
      all: try (unfold r_is_running; simpl; by rewrite Hst).
      all: try (simpl; rewrite wl_get_set_eq; intros Hi; by apply elem_of_remove_id in Hi as [_ ?]).
      all: try (right; done). }
    etrans; [by apply dequeue_wl_len|done].
Qed.

Lemma rstep_wl_growth s e s' r q :
  RInv s → rstep s e = Some (s', r) →
  (length (wl_get (rs_wait s') q) <= length (wl_get (rs_wait s) q))%nat
  ∨ (∃ gok sn, e = RvSchedule q gok sn ∧ rs_shut s = false ∧ r_resolve_action s q false = AQueue
            ∧ wl_get (rs_wait s') q = wl_get (rs_wait s) q ++ [length (rs_jobs s)]).
Proof.
  intros Hinv. destruct e as [rm|js| | |p gok sn|id|d|id|ds|id ec]; simpl.
  - intros [= <- <-]. left. rewrite save_wait. apply filter_length_le.
  - unfold r_restart. destruct (forallb _ js); [|done]. simpl. intros [= <- <-]. left. simpl. lia.
  - intros [= <- <-]. left. simpl. lia.
  - intros [= <- <-]. left. unfold r_cancel_all. generalize (seq 0 (length (rs_jobs s))). intros l.
    assert (H : ∀ s1, RInv s1 → (length (wl_get (rs_wait (fold_left (fun s id => (r_cancel s id).1) l s1)) q) <= length (wl_get (rs_wait s1) q))%nat).
    { induction l as [|id l IH]; intros s1 Hinv1; simpl; [done|]. etrans; [apply IH; by apply cancel_inv|by apply cancel_wl_len]. }
    by apply H.
  - intros [= Heq]. assert (Hs' : s' = (r_schedule s p gok sn).1) by (by rewrite Heq). clear Heq. subst s'.
    unfold r_schedule. destruct (rs_shut s) eqn:Hshut; [by left|].
    destruct (lookup_def (rs_defs s) p) as [d|] eqn:Hd; [|by left].
    set (nj := r_new_job s p d gok sn). set (id := length (rs_jobs s)). set (s1 := r_set_jobs s (rs_jobs s ++ [nj])).
    destruct (r_resolve_action s p false) eqn:Hact; cbn [fst]; try by left.
    + left. assert (Hinv1 : RInvX s1 (Some id)).
      { apply append_inv; try done. subst nj. simpl. intros Ht. apply Nat.ltb_ge in Ht. lia. }
      apply resolve_start_iff in Hact as [_ [Hdel|?]]; [|done].
      unfold def_or_zero in Hdel. rewrite Hd in Hdel. simpl in Hdel.
      unfold r_start_job. destruct (r_try_start s1 id) as [s2 failed] eqn:Hts.
      assert (Hs2 : s2 = (r_try_start s1 id).1) by (by rewrite Hts).
      assert (Hinv2 : RInv s2).
      { rewrite Hs2. eapply (try_start_inv s1 id nj); try done; [apply lookup_snoc_Some; by right|].
        subst nj. simpl. rewrite Hdel. simpl. lia. }
      assert (Hw2 : rs_wait s2 = rs_wait s) by (rewrite Hs2; by rewrite try_start_wait).
      destruct failed; [|by rewrite Hw2]. etrans; [by apply dequeue_wl_len|]. by rewrite Hw2.
    + destruct (decide (q = p)) as [->|Hne].
      * right. exists gok, sn. repeat split; try done. simpl. by rewrite wl_get_set_eq.
      * left. simpl. by rewrite wl_get_set_ne.
    + left. change (rs_wait s1) with (rs_wait s). destruct (last (wl_get (rs_wait s) p)) as [prev|] eqn:Hl; cbn [fst]; [|done].
      destruct (decide (q = p)) as [->|Hne].
      * simpl. rewrite wl_get_set_eq. rewrite (last_removelast _ _ Hl) at 2. by rewrite !app_length.
      * simpl. by rewrite wl_get_set_ne.
  - intros [= Heq]. assert (Hs' : s' = (r_cancel s id).1) by (by rewrite Heq). clear Heq. subst s'. left. by apply cancel_wl_len.
  - intros [= <- <-]. by left.
  - unfold r_fire. destruct (rs_jobs s !! id) as [j|] eqn:Hj; [|done]. destruct (r_timer_due s j) eqn:Hdue; [|done].
    assert (Hinv1 : RInv (r_upd s id r_clear_timer)).
    { apply andb_true_iff in Hdue as [Ht Hdue]. apply Z.leb_le in Hdue.
      eapply (upd_inv s None None id j); try done.
      all: try (simpl; by apply (inv_live _ _ Hinv id j)).
      all: try (simpl; by apply (inv_comp _ _ Hinv id j)).
    all: try (simpl; by apply (inv_creq _ _ Hinv id j)).
    all: try (by apply (inv_run _ _ Hinv id j)).
      all: try (simpl; intros t0 Ht0; by apply (inv_start _ _ Hinv id j t0)).
      - intros Hq. destruct (inv_wl _ _ Hinv _ _ Hq) as (j' & Hj' & _ & Hw' & _). rewrite Hj in Hj'. by injection Hj' as <-.
      - by left. }
    destruct (r_find s id); simpl.
    + destruct (r_canceled j); intros [= <- <-]; left; [done|]. etrans; [by apply dequeue_wl_len|done].
    + intros [= <- <-]. by left.
  - intros [= <- <-]. by left.
  - unfold r_complete. destruct (rs_jobs s !! id) as [j|] eqn:Hj; [|done]. destruct (r_live j) eqn:Hl; [|done].
    assert (Hinv1 : RInv (r_upd s id (r_complete_job (rs_now s) ec))).
    { destruct (inv_live _ _ Hinv id j Hj Hl) as ([t Ht] & Hcomp & Hcan).
      assert (Hnw : r_is_waiting (r_complete_job (rs_now s) ec j) = false) by (unfold r_is_waiting; simpl; by rewrite Ht).
      eapply (upd_inv s None None id j); try done.
      all: try (simpl; by eauto).
      all: try (simpl; intros t0 Ht0; by apply (inv_start _ _ Hinv id j t0)).
      all: try by left.
      all: try by rewrite Hnw.
      all: try (simpl; intros Hcq _; rewrite Hcq; by rewrite orb_true_r).
    all: try (unfold r_is_running; simpl; by rewrite Ht).
      intros Hq. destruct (inv_wl _ _ Hinv _ _ Hq) as (j' & Hj' & _ & Hw' & _). rewrite Hj in Hj'. injection Hj' as <-.
      apply waiting_inv in Hw' as [? _]. congruence. }
    destruct (r_removed j); intros [= <- <-]; left; [done|]. etrans; [by apply dequeue_wl_len|done].
Qed.

(** what the append decision implies about the queue *)
Lemma resolve_queue_room s p :
  r_resolve_action s p false = AQueue →
  (∀ n, pd_qlimit (def_or_zero (rs_defs s) p) = Some n → (length (wl_get (rs_wait s) p) < n)%nat)
  ∧ (pd_replace (def_or_zero (rs_defs s) p) = true → wl_get (rs_wait s) p = []).
Proof.
  unfold r_resolve_action. set (d := def_or_zero (rs_defs s) p). set (wl := wl_get (rs_wait s) p).
  destruct (_ || _); [|done].
  destruct (pd_qlimit d) as [[|n]|] eqn:Hq; [done| |].
  - destruct (pd_replace d && negb (length wl =? 0)%nat) eqn:Hr; [done|].
    destruct (Nat.leb_spec (S n) (length wl)); [done|]. intros _. split; [intros m [= <-]; lia|].
    intros Hrep. rewrite Hrep in Hr. simpl in Hr. apply negb_false_iff, Nat.eqb_eq in Hr. by destruct wl.
  - destruct (pd_replace d && negb (length wl =? 0)%nat) eqn:Hr; [done|]. intros _. split; [done|].
    intros Hrep. rewrite Hrep in Hr. simpl in Hr. apply negb_false_iff, Nat.eqb_eq in Hr. by destruct wl.
Qed.

Definition queue_bounded (s : rstate) : Prop :=
  ∀ p, (∀ n, pd_qlimit (def_or_zero (rs_defs s) p) = Some n → (length (wl_get (rs_wait s) p) <= n)%nat)
       ∧ (pd_replace (def_or_zero (rs_defs s) p) = true → (length (wl_get (rs_wait s) p) <= 1)%nat).

Lemma rstep_queue_bounded s e s' r :
  RInv s → queue_bounded s → rstep s e = Some (s', r) → (∀ ds, e ≠ RvReload ds) → queue_bounded s'.
Proof.
  intros Hinv Hb Hs Hnr p. rewrite (rstep_defs s e s' r Hs Hnr). destruct (Hb p) as [Hb1 Hb2].
  destruct (rstep_wl_growth s e s' r p Hinv Hs) as [Hle|(gok & sn & -> & _ & Hact & Hwl)].
  - split; [intros n Hn; specialize (Hb1 n Hn); lia|intros Hr; specialize (Hb2 Hr); lia].
  - destruct (resolve_queue_room s p Hact) as [Hq1 Hq2]. rewrite Hwl, app_length. simpl. split.
    + intros n Hn. specialize (Hq1 n Hn). lia.
    + intros Hr. rewrite (Hq2 Hr). simpl. lia.
Qed.

(** ** C11: a forced shutdown leaves no running job without a cancel request *)
Definition cancel_done (j : rjob) : Prop :=
  r_removed j = true ∨ r_canceled j = true ∨ r_completed j = true ∨ r_creq j = true.

Lemma cancel_done_mono j j' : job_mono j j' → cancel_done j → cancel_done j'.
Proof.
  intros (_&_&_&Hc&_&_&Hk&Hq&_&_&Hr) [H|[H|[H|H]]]; [left|right; left|right; right; left|right; right; right]; auto.
Qed.

Lemma dequeue_loop_length fuel s p : length (rs_jobs (r_dequeue_loop fuel s p)) = length (rs_jobs s).
Proof.
  revert s. induction fuel as [|x fuel IH]; intros s; simpl; [done|].
  destruct (wl_get (rs_wait s) p) as [|h rest]; [done|]. destruct (rs_jobs s !! h) as [j|]; [|done].
  destruct (bool_decide _ && _); [|done]. rewrite IH.
  by destruct (try_start_frame (r_set_wait s p rest) h) as (_&_&_&_&->&_).
Qed.

Lemma cancel_length s id : length (rs_jobs (r_cancel s id).1) = length (rs_jobs s).
Proof.
  unfold r_cancel. destruct (r_find s id) as [j|]; [|done]. destruct (r_canceled j); [done|]. destruct (r_completed j); [done|].
  destruct (r_start j); cbn [fst].
  - destruct (r_live j); [apply r_upd_length|done].
  - unfold r_dequeue. rewrite dequeue_loop_length. simpl. apply alter_length.
Qed.

Lemma cancel_own s id j :
  RInv s → rs_jobs s !! id = Some j → ∃ j', rs_jobs (r_cancel s id).1 !! id = Some j' ∧ cancel_done j'.
Proof.
  intros Hinv Hj. unfold r_cancel, r_find. rewrite Hj.
  destruct (r_removed j) eqn:Hr; [exists j; split; [done|by left]|].
  destruct (r_canceled j) eqn:Hc; [exists j; split; [done|right; by left]|].
  destruct (r_completed j) eqn:Hk; [exists j; split; [done|right; right; by left]|].
  destruct (r_start j) as [t|] eqn:Hst.
  - assert (Hl : r_live j = true) by (apply (inv_run _ _ Hinv id j Hj); unfold r_is_running; by rewrite Hst, Hk, Hc).
    rewrite Hl. cbn [fst]. exists (r_set_creq j). split; [|right; right; by right].
    rewrite r_upd_lookup. destruct (decide (id = id)); [|done]. by rewrite Hj.
  - cbn [fst]. set (s2 := r_set_wait (r_upd s id r_cancel_notimer) (r_pipe j) _).
    assert (H2 : rs_jobs s2 !! id = Some (r_cancel_notimer j)).
    { subst s2. simpl. rewrite list_lookup_alter, Hj. done. }
    destruct (dequeue_loop_mono (wl_get (rs_wait s2) (r_pipe j)) s2 (r_pipe j) id _ H2) as (j' & Hj' & Hm).
    exists j'. split; [done|]. eapply cancel_done_mono; [exact Hm|]. right. by left.
Qed.

Lemma cancel_all_done s id j :
  RInv s → rs_jobs (r_cancel_all s) !! id = Some j → cancel_done j.
Proof.
  intros Hinv. unfold r_cancel_all.
  (* processed ids satisfy cancel_done; ids still to come are handled when their turn comes *)
  assert (H : ∀ l s0, RInv s0 → ∀ i j1, rs_jobs (fold_left (fun s id => (r_cancel s id).1) l s0) !! i = Some j1 →
              (i ∈ l ∧ is_Some (rs_jobs s0 !! i)) ∨ (∃ j0, rs_jobs s0 !! i = Some j0 ∧ cancel_done j0) → cancel_done j1).
  { induction l as [|x l IH]; intros s0 Hinv0 i j1 Hlk Hor; simpl in *.
    - destruct Hor as [[Hin _]|(j0 & Hj0 & Hd)]; [by apply elem_of_nil in Hin|]. rewrite Hj0 in Hlk. by injection Hlk as <-.
    - apply (IH (r_cancel s0 x).1 (cancel_inv _ _ Hinv0) i j1 Hlk).
      destruct Hor as [[Hin [j0 Hj0]]|(j0 & Hj0 & Hd)].
      + apply elem_of_cons in Hin as [->|Hin].
        * right. by apply (cancel_own s0 x j0).
        * left. split; [done|]. destruct (cancel_mono s0 x i j0 Hj0) as (j' & Hj' & _). eauto.
      + right. destruct (cancel_mono s0 x i j0 Hj0) as (j' & Hj' & Hm). exists j'. split; [done|]. by eapply cancel_done_mono. }
  intros Hlk. apply (H _ s Hinv id j Hlk). left.
  assert (Hlen : ∀ l s0, length (rs_jobs (fold_left (fun s id => (r_cancel s id).1) l s0)) = length (rs_jobs s0)).
  { induction l as [|x l IH]; intros s0; simpl; [done|]. rewrite IH. apply cancel_length. }
  apply lookup_lt_Some in Hlk. rewrite Hlen in Hlk. split.
  - apply elem_of_list_In, in_seq. lia.
  - by apply lookup_lt_is_Some.
Qed.

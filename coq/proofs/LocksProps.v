(** Lock discipline implies race freedom (C13) *)
From stdpp Require Import list.
From PV Require Import Locks.

(** at most one writer, and a writer excludes everybody else *)
Definition excl (c : config) : Prop :=
  ∀ i j ti tj, i ≠ j → c !! i = Some ti → c !! j = Some tj → ti.1 = HoldW → tj.1 = Free.

Definition all_disc (c : config) : Prop := Forall (fun t : thread => disciplined t.1 t.2 = true) c.

Lemma no_writer_spec c : no_writer c = true ↔ ∀ i t, c !! i = Some t → t.1 ≠ HoldW.
Proof.
  unfold no_writer. rewrite forallb_forall. split.
  - intros H i t Hi. specialize (H t). rewrite <- elem_of_list_In in H.
    specialize (H (elem_of_list_lookup_2 _ _ _ Hi)). apply negb_true_iff in H. by apply bool_decide_eq_false in H.
  - intros H t Ht. rewrite <- elem_of_list_In in Ht. apply elem_of_list_lookup in Ht as [i Hi].
    apply negb_true_iff, bool_decide_eq_false. by eapply H.
Qed.

Lemma all_free_spec c : all_free c = true ↔ ∀ i t, c !! i = Some t → t.1 = Free.
Proof.
  unfold all_free. rewrite forallb_forall. split.
  - intros H i t Hi. specialize (H t). rewrite <- elem_of_list_In in H.
    specialize (H (elem_of_list_lookup_2 _ _ _ Hi)). by apply bool_decide_eq_true in H.
  - intros H t Ht. rewrite <- elem_of_list_In in Ht. apply elem_of_list_lookup in Ht as [i Hi].
    apply bool_decide_eq_true. by eapply H.
Qed.

Lemma lookup_insert_cases {A} (c : list A) i j x y :
  <[i := x]> c !! j = Some y → (i = j ∧ y = x) ∨ (i ≠ j ∧ c !! j = Some y).
Proof.
  destruct (decide (i = j)) as [->|Hne].
  - intros H. left. split; [done|]. destruct (decide (j < length c)) as [Hlt|Hge].
    + rewrite list_lookup_insert in H by done. congruence.
    + rewrite list_insert_ge in H by lia. apply lookup_lt_Some in H. lia.
  - rewrite list_lookup_insert_ne by done. by right.
Qed.

Lemma step_excl c i c' : excl c → step c i = Some c' → excl c'.
Proof.
  intros Hex Hs. unfold step in Hs.
  destruct (c !! i) as [[m [|a rest]]|] eqn:Ei; try done.
  assert (Hkeep : ∀ m', (m' = m ∨ m' = Free) → excl (<[i := (m', rest)]> c)).
  { intros m' Hm' j k tj tk Hjk Hj Hk Hw.
    apply lookup_insert_cases in Hj as [[<- ->]|[Hij Hj]]; apply lookup_insert_cases in Hk as [[<- ->]|[Hik Hk]]; simpl in *; try done.
    1: { destruct Hm' as [Hm'|Hm']; [|congruence]. eapply (Hex i k (m, a :: rest) tk); try done. simpl. congruence. }
    1: { assert (Hf : (m, a :: rest).1 = Free). { eapply (Hex j i tj (m, a :: rest)); try done. } simpl in Hf. destruct Hm'; congruence. }
    eapply (Hex j k tj tk); done. }
  destruct a.
  - (* AcqR *)
    destruct (bool_decide (m = Free) && no_writer c) eqn:E; [|done]. injection Hs as <-.
    apply andb_true_iff in E as [_ Hnw]. rewrite no_writer_spec in Hnw.
    intros j k tj tk Hjk Hj Hk Hw.
    apply lookup_insert_cases in Hj as [[<- ->]|[Hij Hj]]; [done|].
    exfalso. by eapply Hnw.
  - (* AcqW *)
    destruct (bool_decide (m = Free) && all_free c) eqn:E; [|done]. injection Hs as <-.
    apply andb_true_iff in E as [_ Haf]. rewrite all_free_spec in Haf.
    intros j k tj tk Hjk Hj Hk Hw.
    apply lookup_insert_cases in Hk as [[<- ->]|[Hik Hk]].
    + apply lookup_insert_cases in Hj as [[<- ->]|[Hij Hj]]; [done|]. rewrite (Haf _ _ Hj) in Hw. done.
    + by eapply Haf.
  - (* Rel *)
    destruct (bool_decide (m = Free)); [done|]. injection Hs as <-. apply Hkeep. by right.
  - injection Hs as <-. apply Hkeep. by left.
  - injection Hs as <-. apply Hkeep. by left.
Qed.

Lemma step_disc c i c' : all_disc c → step c i = Some c' → all_disc c'.
Proof.
  intros Hd Hs. unfold step in Hs.
  destruct (c !! i) as [[m [|a rest]]|] eqn:Ei; try done.
  assert (Hi : disciplined m (a :: rest) = true) by (eapply (Forall_lookup_1 _ _ _ _ Hd Ei)).
  assert (Hins : ∀ m', disciplined m' rest = true → all_disc (<[i := (m', rest)]> c)).
  { intros m' Hm'. apply Forall_insert; done. }
  destruct a; simpl in Hi.
  - destruct (bool_decide (m = Free) && no_writer c); [|done]. injection Hs as <-. apply Hins. by apply andb_true_iff in Hi as [_ ?].
  - destruct (bool_decide (m = Free) && all_free c); [|done]. injection Hs as <-. apply Hins. by apply andb_true_iff in Hi as [_ ?].
  - destruct (bool_decide (m = Free)); [done|]. injection Hs as <-. apply Hins. by apply andb_true_iff in Hi as [_ ?].
  - injection Hs as <-. apply Hins. by apply andb_true_iff in Hi as [_ ?].
  - injection Hs as <-. apply Hins. by apply andb_true_iff in Hi as [_ ?].
Qed.

Lemma reach_inv c c' : reach c c' → excl c → all_disc c → excl c' ∧ all_disc c'.
Proof.
  induction 1 as [|c c' c'' i Hr IH Hs]; intros He Hd; [done|].
  destruct (IH He Hd) as [He' Hd']. split; [by eapply step_excl|by eapply step_disc].
Qed.

Lemma no_race_inv c : excl c → all_disc c → ¬ race c.
Proof.
  intros He Hd (i & j & l & Hij & Hi & Hj).
  unfold next in Hi, Hj.
  destruct (c !! i) as [[mi [|ai ri]]|] eqn:Ei; try done. injection Hi as ->.
  assert (Hdi := Forall_lookup_1 _ _ _ _ Hd Ei). simpl in Hdi.
  apply andb_true_iff in Hdi as [Hw _]. apply bool_decide_eq_true in Hw. subst mi.
  destruct (c !! j) as [[mj [|aj rj]]|] eqn:Ej; try (by destruct Hj).
  assert (Hdj := Forall_lookup_1 _ _ _ _ Hd Ej). simpl in Hdj.
  assert (Hfree : mj = Free) by (eapply (He i j (HoldW, Wr l :: ri) (mj, aj :: rj)); done).
  subst mj. destruct Hj as [Hj|Hj]; injection Hj as ->; simpl in Hdj; done.
Qed.

(** any number of threads, each following the discipline, started without the lock: no interleaving reaches a data race *)
Theorem discipline_race_free (ts : list (list act)) c :
  Forall (fun acts => disciplined Free acts = true) ts →
  reach (map (fun acts => (Free, acts)) ts) c → ¬ race c.
Proof.
  intros Hts Hr.
  set (c0 := map (fun acts : list act => (Free, acts)) ts) in *.
  assert (Hall : ∀ i t, c0 !! i = Some t → t.1 = Free ∧ disciplined t.1 t.2 = true).
  { intros i t Hi. apply elem_of_list_lookup_2 in Hi. apply elem_of_list_In in Hi. unfold c0 in Hi.
    apply in_map_iff in Hi as (x & <- & Hx). split; [done|]. simpl.
    rewrite Forall_forall in Hts. apply Hts. by apply elem_of_list_In. }
  assert (He0 : excl c0).
  { intros i j ti tj _ Hi _ Hw. destruct (Hall _ _ Hi) as [Hf _]. congruence. }
  assert (Hd0 : all_disc c0).
  { apply Forall_lookup. intros i t Hi. by destruct (Hall _ _ Hi). }
  destruct (reach_inv _ _ Hr He0 Hd0) as [He Hd]. by apply no_race_inv.
Qed.

(** a path whose mode annotations are consistent and whose access sites all satisfy the table rule is disciplined *)
Lemma sites_disciplined m p : consistent m p = true → forallb site_ok p = true → disciplined m (map erase p) = true.
Proof.
  revert m. induction p as [|s p IH]; intros m Hc Hok; [done|].
  simpl in Hok. apply andb_true_iff in Hok as [Hs Hok].
  destruct s as [w| |l w held]; simpl in Hc; apply andb_true_iff in Hc as [Hm Hc].
  - destruct w; simpl; rewrite Hm; simpl; by apply IH.
  - simpl. rewrite Hm. simpl. by apply IH.
  - apply bool_decide_eq_true in Hm. subst held. destruct w; simpl in *.
    + rewrite Hs. simpl. by apply IH.
    + rewrite Hs. simpl. by apply IH.
Qed.

(** the discipline is necessary: a write under the read lock races with a reader *)
Lemma rlock_write_races : ∃ c, reach [(Free, [AcqR; Wr 0; Rel]); (Free, [AcqR; Rd 0; Rel])] c ∧ race c.
Proof.
  exists [(HoldR, [Wr 0; Rel]); (HoldR, [Rd 0; Rel])]. split.
  - eapply reach_step with (i := 1); [eapply reach_step with (i := 0); [apply reach_refl|]|]; reflexivity.
  - exists 0, 1, 0. split; [done|]. split; [done|]. by left.
Qed.

(** Correspondence functions for C14: observed routes and observed responses vs the router model *)
From stdpp Require Import list strings.
From Coq Require Import String.
From PV Require Import Auth.

Global Instance alg_eq_dec : EqDecision alg. Proof. solve_decision. Defined.

(** the discovered (method, pattern) list of the API (non-profiler) routes equals the model's endpoint list *)
Definition api_routes (profiling : bool) : list (method * string) :=
  omap (fun e => match e_method e with Some m => if e_debug e then None else Some (m, e_path e) | None => None end) (endpoints profiling).

Definition same_routes (profiling : bool) (observed : list (method * string)) : bool :=
  bool_decide (observed ⊆ api_routes profiling) && bool_decide (api_routes profiling ⊆ observed).

(** one observed request: (id, profiling, method, path, header, cookie, response class, state changed, data in body) *)
Definition check_case (c : nat * bool * method * string * token * token * response * bool * bool) : nat * bool :=
  let '(id, prof, m, path, h, ck, resp, changed, leaks) := c in
  let model := serve prof m path h ck in
  (id, bool_decide (model = resp)
       && (match resp with RHandler | RDebug => true | _ => negb changed && negb leaks end)).

Definition mismatches (cs : list (nat * bool * method * string * token * token * response * bool * bool)) : list nat :=
  map fst (List.filter (fun r => negb (snd r)) (map check_case cs)).

(** one configuration of the CLI application: (id, flag, env, debug routes answered, api without token = 401,
    api with valid token = 200, api with wrongly signed token = 401) *)
Definition check_app (c : nat * option bool * option bool * bool * bool * bool * bool) : nat * bool :=
  let '(id, flag, env, debug_present, none401, good200, bad401) := c in
  let prof := profiling_config flag env in
  (id, bool_decide (bool_decide (serve prof GET "/debug/pprof/" TokMissing TokMissing = RDebug) = debug_present)
       && bool_decide (bool_decide (serve prof GET "/pipelines/" TokMissing TokMissing = R401) = none401)
       && bool_decide (bool_decide (serve prof GET "/pipelines/" (TokJWT HS256 true TFuture TAbsent false) TokMissing = RHandler) = good200)
       && bool_decide (bool_decide (serve prof GET "/pipelines/" (TokJWT HS256 false TFuture TAbsent false) TokMissing = R401) = bad401)).

Definition app_mismatches (cs : list (nat * option bool * option bool * bool * bool * bool * bool)) : list nat :=
  map fst (List.filter (fun r => negb (snd r)) (map check_app cs)).

(** Decision rules of the per-job scheduler (taskctl/scheduler.go as modelled in System.v): one-step facts used by the
    property files C02 and C08 *)
From stdpp Require Import list.
From Coq Require Import ZArith Lia.
From PV Require Import System.

Definition task_deps (j : job) (n : name) : list name :=
  match find_task j n with Some t => td_deps (jt_def t) | None => [] end.
Definition task_allow (j : job) (n : name) : bool :=
  match find_task j n with Some t => td_allow (jt_def t) | None => false end.

(** a dependency is satisfied: done or skipped, or errored while marked allow_failure *)
Definition dep_ok (sc : sched) (j : job) (d : name) : bool :=
  match stage_status sc d with
  | Some Done | Some Skipped => true
  | Some Error => task_allow j d
  | _ => false
  end.

Lemma check_status_fold (sc : sched) (j : job) (deps : list name) (acc : bool * bool) :
  fst (fold_left (fun acc d =>
    match stage_status sc d with
    | Some Done | Some Skipped => acc
    | Some Error => if match find_task j d with Some t => td_allow (jt_def t) | None => false end then acc else (false, true)
    | Some Canceled => (false, true)
    | _ => (false, snd acc)
    end) deps acc) = fst acc && forallb (dep_ok sc j) deps.
Proof.
  revert acc. induction deps as [|d deps IH]; intros acc; simpl; [by rewrite andb_true_r|].
  rewrite IH. unfold dep_ok at 2, task_allow.
  destruct (stage_status sc d) as [[]|]; simpl; try (by rewrite ?andb_false_r);
    try (destruct (fst acc); simpl; done).
  destruct (match find_task j d with Some t => td_allow (jt_def t) | None => false end); simpl;
    [destruct (fst acc); done|by rewrite andb_false_r].
Qed.

(** a stage is ready exactly when every dependency is satisfied *)
Lemma check_status_ready sc j n : fst (check_status sc j n) = forallb (dep_ok sc j) (task_deps j n).
Proof. unfold check_status, task_deps. rewrite check_status_fold. done. Qed.

Definition sched_of (s : state) (id : nat) : option sched := get_job s id ≫= j_sched.

Lemma upd_job_is_Some s id f id' : is_Some (get_job (upd_job s id f) id') ↔ is_Some (get_job s id').
Proof.
  unfold get_job, upd_job, set_jobs. simpl. destruct (decide (id = id')) as [<-|Hne].
  - rewrite list_lookup_alter. destruct (st_jobs s !! id); simpl; split; intros [? ?]; eauto; done.
  - by rewrite list_lookup_alter_ne.
Qed.

Lemma sched_of_put s id sc : is_Some (get_job s id) → sched_of (put_sched s id sc) id = Some sc.
Proof.
  intros [j Hj]. unfold sched_of, put_sched, get_job, upd_job, set_jobs in *. simpl.
  rewrite list_lookup_alter, Hj. done.
Qed.

Lemma handle_stage_change_is_Some s id n st id' :
  is_Some (get_job (handle_stage_change s id n st) id') ↔ is_Some (get_job s id').
Proof.
  unfold handle_stage_change. destruct (find_job s id) as [j|]; [|done]. destruct (find_task j n); [|done].
  change (get_job (request_persist ?x) id') with (get_job x id'). apply upd_job_is_Some.
Qed.

(** a visit launches the stage iff it is waiting and all its dependencies are satisfied; this is the only place where
    a stage goroutine is created *)
Definition launches (sc : sched) (j : job) (n : name) : bool :=
  match stage_status sc n with
  | Some Waiting => forallb (dep_ok sc j) (task_deps j n)
  | _ => false
  end.

Lemma visit_entry s id n s' j sc :
  do_visit s id n = Some s' → get_job s id = Some j → j_sched j = Some sc →
  ∃ sc', sched_of s' id = Some sc' ∧ sc_entry sc' = sc_entry sc ++ (if launches sc j n then [n] else [])
         ∧ sc_running sc' = sc_running sc ∧ sc_ctx sc' = sc_ctx sc ∧ sc_cancelled sc' = sc_cancelled sc.
Proof.
  unfold do_visit, with_sched. intros H Hj Hsc. rewrite Hj, Hsc in H.
  destruct (sc_phase sc) as [|todo|]; try done. destruct (mem n todo); [|done].
  unfold launches. pose proof (check_status_ready sc j n) as Hr.
  assert (Hsome : is_Some (get_job s id)) by (by exists j).
  destruct (stage_status sc n) as [[]|] eqn:Hst.
  all: try (injection H as H; subst s'; eexists; (split; [by apply sched_of_put|]); simpl; by rewrite app_nil_r).
  destruct (check_status sc j n) as [ready cancel]. simpl in Hr. rewrite <- Hr.
  destruct ready.
  - injection H as H; subst s'. eexists. split; [apply sched_of_put; by apply handle_stage_change_is_Some|]. done.
  - destruct cancel; injection H as H; subst s'; eexists; (split; [by apply sched_of_put|]); simpl; by rewrite app_nil_r.
Qed.

(** a dependent of a failed (not allow_failure) or canceled stage is never ready; it is marked canceled instead *)
Lemma failed_dep_blocks sc j n d :
  d ∈ task_deps j n →
  (stage_status sc d = Some Error ∧ task_allow j d = false) ∨ stage_status sc d = Some Canceled →
  fst (check_status sc j n) = false.
Proof.
  intros Hd Hst. rewrite check_status_ready. apply not_true_is_false. intros Hall.
  rewrite forallb_forall in Hall. specialize (Hall d). rewrite <- elem_of_list_In in Hall. specialize (Hall Hd).
  unfold dep_ok in Hall. destruct Hst as [[Hst Ha]|Hst]; rewrite Hst in Hall; [by rewrite Ha in Hall|done].
Qed.

(** a job whose graph cannot be built (cycle, or reserved variable name) gets no scheduler: it is reported canceled with
    the error, and the wait list is processed further *)
Lemma unbuildable_job_harmless s id j :
  find_job s id = Some j → j_canceled j = false → graph_ok j = false →
  (try_start s id).2 = true ∧
  ∃ j', get_job (try_start s id).1 id = Some j' ∧ j_canceled j' = true ∧ j_lasterr j' = Some EGraph
        ∧ j_sched j' = j_sched j ∧ j_start j' = j_start j.
Proof.
  intros Hf Hc Hg. unfold try_start. rewrite Hf, Hc, Hg. simpl. split; [done|].
  unfold find_job, get_job in *. destruct (st_jobs s !! id) as [j0|] eqn:E; [|done].
  destruct (j_removed j0); [done|]. injection Hf as ->.
  unfold upd_job, set_jobs. simpl. rewrite list_lookup_alter, E. simpl. eexists. split; [done|]. done.
Qed.

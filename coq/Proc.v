(** * Proc: the processes of one task and what cancel does to them (taskctl/executor_unix.go createExecHandler,
    taskctl/runner.go Cancel). Every executed command is the leader of its own process group; on context end the group
    gets SIGINT and, after the kill timeout, SIGKILL; the handler returns when the leader is dead and nobody alive holds
    the output pipes, and (repair D9) kills what is left of the group if the context has ended by then.
    Kernel semantics assumed: SIGKILL cannot be ignored, children stay in the group of their parent (setsid / setpgid
    escapes are outside the property), a signal to a group reaches all its members atomically with respect to fork. *)
From stdpp Require Import list.

Record proc := Proc { p_alive : bool; p_ign : bool (* ignores SIGINT *); p_pipe : bool (* holds the task's output pipes *) }.

Record group := Group {
  g_procs : list proc;       (* index 0 is the leader *)
  g_returned : bool;         (* the exec handler's Wait has returned *)
  g_running_at_cancel : bool (* ghost: the command had not returned when the context ended *) }.

Record st := St { groups : list group; canceled : bool; timed_out : bool; reported : bool }.

Definition init : st := St [] false false false.

Inductive ev :=
  | EStart (ps : list proc)        (* a command is executed: a new group *)
  | EExit (g i : nat)              (* a process exits by itself *)
  | EFork (g i : nat) (p : proc)   (* a live member forks; the child is in the same group *)
  | ECancel                        (* the job context ends: SIGINT to every group *)
  | EWaitReturn (g : nat)          (* leader dead and pipes closed: the handler returns *)
  | ETimeout                       (* kill timeout after the cancel: SIGKILL to every group *)
  | EReport.                       (* all commands have returned: the job is reported finished *)

Definition kill_all (ps : list proc) : list proc := map (fun p => Proc false (p_ign p) (p_pipe p)) ps.
Definition interrupt (ps : list proc) : list proc := map (fun p => Proc (p_alive p && p_ign p) (p_ign p) (p_pipe p)) ps.

Definition leader_dead (ps : list proc) : bool := match ps with p :: _ => negb (p_alive p) | [] => true end.
Definition pipes_closed (ps : list proc) : bool := forallb (fun p => negb (p_alive p && p_pipe p)) ps.
Definition all_dead (ps : list proc) : bool := forallb (fun p => negb (p_alive p)) ps.
Definition is_alive (ps : list proc) (i : nat) : bool := match ps !! i with Some p => p_alive p | None => false end.

Definition upd_group (s : st) (g : nat) (f : group → group) : st :=
  St (alter f g (groups s)) (canceled s) (timed_out s) (reported s).

Definition step (s : st) (e : ev) : option st :=
  match e with
  | EStart ps =>
      if negb (canceled s) && forallb p_alive ps && negb (bool_decide (ps = []))
      then Some (St (groups s ++ [Group ps false false]) (canceled s) (timed_out s) (reported s)) else None
  | EExit g i =>
      match groups s !! g with
      | Some gr => if is_alive (g_procs gr) i
                   then Some (upd_group s g (fun gr => Group (alter (fun p => Proc false (p_ign p) (p_pipe p)) i (g_procs gr)) (g_returned gr) (g_running_at_cancel gr)))
                   else None
      | None => None
      end
  | EFork g i p =>
      match groups s !! g with
      | Some gr => if is_alive (g_procs gr) i
                   then Some (upd_group s g (fun gr => Group (g_procs gr ++ [Proc true (p_ign p) (p_pipe p)]) (g_returned gr) (g_running_at_cancel gr)))
                   else None
      | None => None
      end
  | ECancel =>
      if canceled s then None
      else Some (St (map (fun gr => Group (interrupt (g_procs gr)) (g_returned gr) (negb (g_returned gr))) (groups s)) true (timed_out s) (reported s))
  | EWaitReturn g =>
      match groups s !! g with
      | Some gr => if negb (g_returned gr) && leader_dead (g_procs gr) && pipes_closed (g_procs gr)
                   then Some (upd_group s g (fun gr => Group (if canceled s then kill_all (g_procs gr) else g_procs gr) true (g_running_at_cancel gr)))
                   else None
      | None => None
      end
  | ETimeout =>
      if canceled s && negb (timed_out s)
      then Some (St (map (fun gr => Group (kill_all (g_procs gr)) (g_returned gr) (g_running_at_cancel gr)) (groups s)) true true (reported s))
      else None
  | EReport =>
      if canceled s && forallb g_returned (groups s) && negb (reported s)
      then Some (St (groups s) true (timed_out s) true) else None
  end.

(** a kill timeout <= 0 means: no grace period, the cancel is the SIGKILL (createExecHandler: killTimeout <= 0) *)
Definition step_immediate (s : st) (e : ev) : option st :=
  match e with
  | ECancel =>
      if canceled s then None
      else Some (St (map (fun gr => Group (kill_all (g_procs gr)) (g_returned gr) (negb (g_returned gr))) (groups s)) true true (reported s))
  | ETimeout => None
  | _ => step s e
  end.

Fixpoint run_immediate (s : st) (es : list ev) : option st :=
  match es with [] => Some s | e :: es' => match step_immediate s e with Some s' => run_immediate s' es' | None => None end end.

Fixpoint run (s : st) (es : list ev) : option st :=
  match es with [] => Some s | e :: es' => match step s e with Some s' => run s' es' | None => None end end.

(** the variant without the repair D9: the handler just returns *)
Definition step_unrepaired (s : st) (e : ev) : option st :=
  match e with
  | EWaitReturn g =>
      match groups s !! g with
      | Some gr => if negb (g_returned gr) && leader_dead (g_procs gr) && pipes_closed (g_procs gr)
                   then Some (upd_group s g (fun gr => Group (g_procs gr) true (g_running_at_cancel gr)))
                   else None
      | None => None
      end
  | _ => step s e
  end.

Fixpoint run_unrepaired (s : st) (es : list ev) : option st :=
  match es with [] => Some s | e :: es' => match step_unrepaired s e with Some s' => run_unrepaired s' es' | None => None end end.

package main

import (
	"bytes"
	"encoding/json"
	"fmt"
	"os"
	"sort"
	"strings"
	"sync"
	"text/template"
	"time"

	"verifharness/hutil"
)

var valueAlphabet = []string{"{{", "}}", "{{.v1}}", "a", "B", "7", " ", "  ", "'", "\"", "\n", "$", "$HOME", "${X}", "=", "==", "ü", "日本", "\\", "\\n", "\t", ";", "&", "|", "#", "`id`", "$(id)", "*", "%s", "{", "}", "<", ">", "(", ")", "!", "~", ","}

func weirdValue(r *hutil.Rng) string {
	if r.Chance(1, 10) {
		return ""
	}
	var sb strings.Builder
	for k := 1 + r.Intn(6); k > 0; k-- {
		sb.WriteString(valueAlphabet[r.Intn(len(valueAlphabet))])
	}
	return sb.String()
}

// variable values are observed through a here-document of the interpreter, which does not keep backslashes
func weirdVar(r *hutil.Rng) string {
	v := strings.ReplaceAll(weirdValue(r), "\\", "/")
	// variable values may reference other variables (taskctl renders them): generated without template syntax
	return strings.ReplaceAll(strings.ReplaceAll(v, "{{", "("), "}}", ")")
}

const heredoc = "__VERIF_EOF__"

// the variables of a job and the template every task renders
const varTemplate = "v1=[{{.v1}}] v2=[{{.v2}}] n=[{{.n}}] b=[{{.b}}] m=[{{.m.k}}] l=[{{range .l}}<{{.}}>{{end}}] own=[{{.own}}] " +
	"id=[{{.__jobID}}] notvars=[{{index . \"VA\"}}|{{index . \"VB\"}}|{{index . \"V_G\"}}|{{index . \"TASK_NAME\"}}|{{index . \"HOME\"}}]"

func renderExpected(vars map[string]interface{}, id string) string {
	// what the API receives is the JSON form of the variables
	b, _ := json.Marshal(vars)
	var m map[string]interface{}
	_ = json.Unmarshal(b, &m)
	m["__jobID"] = id
	t, err := template.New("x").Parse(varTemplate)
	if err != nil {
		panic(err)
	}
	var out bytes.Buffer
	if err := t.Execute(&out, m); err != nil {
		return "ERROR " + err.Error()
	}
	return out.String() + "\n"
}

func parseEnv0(b []byte) (map[string]string, []string) {
	m := map[string]string{}
	var dups []string
	for _, kv := range bytes.Split(b, []byte{0}) {
		if len(kv) == 0 {
			continue
		}
		i := bytes.IndexByte(kv, '=')
		if i < 0 {
			m[string(kv)] = "<no =>"
			continue
		}
		k := string(kv[:i])
		if _, ok := m[k]; ok {
			dups = append(dups, k)
		}
		m[k] = string(kv[i+1:])
	}
	return m, dups
}

// names the interpreter itself maintains for every command it runs
var interpNames = map[string]bool{"PWD": true, "OLDPWD": true, "SHLVL": true, "_": true}

func envMode(seed uint64, rounds int) {
	rng := hutil.NewRng(seed)
	pool := []string{"VA", "VB", "VC", "VD", "VE", "VF", "V_G", "v_lower", "V9", "HOME", "PATH_EXTRA", "TASK_NAME", "ARGS"}
	for round := 0; round < rounds; round++ {
		r := rng.Fork()
		if round == 0 {
			for _, n := range pool {
				if n != "HOME" {
					os.Unsetenv(n)
				}
			}
			envReloadRound(r, pool, round)
			continue
		}
		// process level
		procSet := map[string]string{}
		for _, n := range pool {
			if n == "HOME" || n == "TASK_NAME" || n == "ARGS" {
				if r.Chance(1, 3) && n != "HOME" {
					procSet[n] = "proc:" + weirdValue(r)
				}
				continue
			}
			if r.Chance(1, 2) {
				procSet[n] = "proc:" + weirdValue(r)
			}
		}
		for _, n := range pool {
			if n != "HOME" {
				os.Unsetenv(n)
			}
		}
		for n, v := range procSet {
			os.Setenv(n, v)
		}
		np := 1 + r.Intn(3)
		type tdef struct {
			name string
			env  map[string]string
		}
		type pdef struct {
			name  string
			env   map[string]string
			tasks []tdef
		}
		var pipes []pdef
		defs := map[string]PipeDef{}
		for p := 0; p < np; p++ {
			pd := pdef{name: fmt.Sprintf("p%d", p), env: map[string]string{}}
			for _, n := range pool {
				if r.Chance(2, 5) {
					pd.env[n] = fmt.Sprintf("pipe:%s:", pd.name) + weirdValue(r)
				}
			}
			nt := 1 + r.Intn(3)
			def := PipeDef{Concurrency: 16, Env: pd.env, Tasks: map[string]TaskDef{}}
			for t := 0; t < nt; t++ {
				td := tdef{name: []string{"a", "b", "c"}[t], env: map[string]string{}}
				for _, n := range pool {
					if r.Chance(2, 5) {
						td.env[n] = fmt.Sprintf("task:%s:%s:", pd.name, td.name) + weirdValue(r)
					}
				}
				pd.tasks = append(pd.tasks, td)
				def.Tasks[td.name] = TaskDef{Env: td.env, Script: []string{
					"env -0",
					"sleep 0.03",
					"cat >&2 <<'" + heredoc + "'\n" + varTemplate + "\n" + heredoc,
				}}
			}
			pipes = append(pipes, pd)
			defs[pd.name] = def
		}
		a, err := startApp(defs)
		if err != nil {
			emit(map[string]interface{}{"kind": "error", "round": round, "what": err.Error()})
			continue
		}
		baseEnv := map[string]string{}
		for _, kv := range os.Environ() {
			i := strings.IndexByte(kv, '=')
			baseEnv[kv[:i]] = kv[i+1:]
		}
		nj := 2 + r.Intn(4)
		type jrec struct {
			id   string
			pipe pdef
			vars map[string]interface{}
		}
		jobs := make([]jrec, nj)
		var wg sync.WaitGroup
		for j := 0; j < nj; j++ {
			v1, v2 := weirdVar(r), weirdVar(r)
			jobs[j] = jrec{pipe: pipes[r.Intn(len(pipes))], vars: map[string]interface{}{
				"v1": v1, "v2": v2, "n": r.Intn(100000), "b": r.Chance(1, 2), "m": map[string]interface{}{"k": weirdVar(r)},
				"l": []interface{}{weirdVar(r), r.Intn(9)}, "own": fmt.Sprintf("job-%d-%d", round, j)}}
			wg.Add(1)
			go func(j int) {
				defer wg.Done()
				id, st, msg := a.Schedule(jobs[j].pipe.name, jobs[j].vars)
				if st != 202 {
					emit(map[string]interface{}{"kind": "error", "round": round, "what": fmt.Sprintf("schedule: %d %s", st, msg)})
				}
				jobs[j].id = id
			}(j)
		}
		wg.Wait()
		// a job that tries to set the variable reserved for job identity to another job's id
		victim := jobs[0]
		impostor, ist, imsg := a.Schedule(victim.pipe.name, map[string]interface{}{"__jobID": victim.id, "own": "impostor", "v1": "", "v2": "", "n": 0, "b": false, "m": map[string]interface{}{"k": ""}, "l": []interface{}{}})
		for j := range jobs {
			if jobs[j].id != "" {
				if res, ok := a.WaitDone(jobs[j].id, 60*time.Second); !ok {
					emit(map[string]interface{}{"kind": "error", "round": round, "what": "job did not finish", "job": res})
				}
			}
		}
		for j, jr := range jobs {
			if jr.id == "" {
				continue
			}
			for _, td := range jr.pipe.tasks {
				emit(checkTaskEnv(a, pool, baseEnv, round, j, jr.id, jr.pipe.name, jr.pipe.env, td.name, td.env, jr.vars))
			}
		}
		// the impostor: never runs, and the victim keeps its own state and logs
		irec := map[string]interface{}{"kind": "reserved", "round": round, "status": ist, "msg": imsg, "impostor": impostor, "victim": victim.id}
		ok := true
		if impostor != "" {
			var res *JobResult
			for dl := time.Now().Add(5 * time.Second); time.Now().Before(dl); time.Sleep(2 * time.Millisecond) {
				if res, _ = a.Detail(impostor); res != nil && (res.Canceled || res.Completed) {
					break
				}
			}
			// give a wrongly started impostor the time to run
			time.Sleep(100 * time.Millisecond)
			res, _ = a.Detail(impostor)
			if res != nil {
				irec["canceled"], irec["last_error"] = res.Canceled, res.LastError
				for _, t := range res.Tasks {
					if t.Status != "waiting" && t.Status != "canceled" {
						ok = false
						irec["task_ran"] = t.Name + ":" + t.Status
					}
				}
				if !res.Canceled || res.LastError == nil {
					ok = false
				}
			}
			for _, td := range victim.pipe.tasks {
				if b, err := a.LogFile(impostor, td.name, "stdout"); err == nil {
					ok = false
					irec["impostor_has_logs"] = len(b)
				}
				eb, _ := a.LogFile(victim.id, td.name, "stderr")
				if !strings.Contains(string(eb), "own=["+victim.vars["own"].(string)+"]") {
					ok = false
					irec["victim_logs_changed"] = string(eb)
				}
			}
			if res, _ := a.Detail(victim.id); res == nil || !res.Completed || res.Canceled || res.Errored {
				ok = false
				irec["victim_state"] = res
			}
		} else if ist/100 != 4 {
			ok = false
		}
		irec["ok"] = ok
		emit(irec)
		// which variable names are refused
		for _, names := range [][]string{{"__jobID"}, {"__jobID", "own", "v1"}, {"__jobid", "own"}, {"jobID"}, {"__jobID ", "own"}, {"_jobID", "__JOBID"}, {}} {
			vars := map[string]interface{}{}
			for _, n := range names {
				vars[n] = "x"
			}
			for _, n := range []string{"v1", "v2", "n", "b", "own"} {
				if _, ok := vars[n]; !ok {
					vars[n] = "y"
				}
			}
			vars["m"] = map[string]interface{}{"k": ""}
			vars["l"] = []interface{}{}
			id, st, _ := a.Schedule(victim.pipe.name, vars)
			vrec := map[string]interface{}{"kind": "vars", "round": round, "names": keysOf(vars), "status": st}
			if id == "" {
				vrec["refused"] = true
			} else {
				var res *JobResult
				for dl := time.Now().Add(20 * time.Second); time.Now().Before(dl); time.Sleep(2 * time.Millisecond) {
					if res, _ = a.Detail(id); res != nil && (res.Canceled || res.Completed) {
						break
					}
				}
				ran := false
				if res != nil {
					for _, t := range res.Tasks {
						if t.Status == "done" || t.Status == "running" || t.Status == "error" {
							ran = true
						}
					}
				}
				vrec["refused"] = res != nil && res.Canceled && !ran
				vrec["ran"] = ran
			}
			want := false
			for _, n := range names {
				if n == "__jobID" {
					want = true
				}
			}
			vrec["ok"] = vrec["refused"] == want
			emit(vrec)
		}
		a.Stop()
	}
	for _, n := range pool {
		if n != "HOME" {
			os.Unsetenv(n)
		}
	}
}

func keysOf(m map[string]interface{}) []string {
	var ks []string
	for k := range m {
		ks = append(ks, k)
	}
	sort.Strings(ks)
	return ks
}

// checkTaskEnv compares what the task's commands saw with the precedence rule and the expected rendering
func checkTaskEnv(a *App, pool []string, baseEnv map[string]string, round, j int, id, pipeName string, pipeEnv map[string]string,
	taskName string, taskEnv map[string]string, vars map[string]interface{}) map[string]interface{} {
	out, err1 := a.LogFile(id, taskName, "stdout")
	errb, err2 := a.LogFile(id, taskName, "stderr")
	rec := map[string]interface{}{"kind": "env", "round": round, "job": j, "job_id": id, "pipeline": pipeName, "task": taskName}
	if err1 != nil || err2 != nil {
		rec["ok"], rec["what"] = false, fmt.Sprintf("logs: %v %v", err1, err2)
		return rec
	}
	got, dups := parseEnv0(out)
	exp := map[string]string{}
	for k, v := range baseEnv {
		exp[k] = v
	}
	for k, v := range pipeEnv {
		exp[k] = v
	}
	exp["TASK_NAME"] = taskName
	for k, v := range taskEnv {
		exp[k] = v
	}
	var diffs []string
	names := map[string]bool{}
	for k := range got {
		names[k] = true
	}
	for k := range exp {
		names[k] = true
	}
	for k := range names {
		if interpNames[k] || k == "TASK_NAME" {
			continue
		}
		g, gok := got[k]
		e, eok := exp[k]
		if gok != eok || g != e {
			diffs = append(diffs, fmt.Sprintf("%s: expected %q (%v) got %q (%v)", k, e, eok, g, gok))
		}
	}
	sort.Strings(diffs)
	wantRender := renderExpected(vars, id)
	ok := len(diffs) == 0 && len(dups) == 0 && string(errb) == wantRender
	rec["ok"] = ok
	if !ok {
		if res, _ := a.Detail(id); res != nil {
			for _, t := range res.Tasks {
				if t.Name == taskName {
					rec["task_status"], rec["task_error"], rec["task_exit"] = t.Status, t.Error, t.ExitCode
				}
			}
		}
	}
	rec["diffs"], rec["dups"] = diffs, dups
	rec["names_compared"] = len(names)
	if string(errb) != wantRender {
		rec["render_expected"], rec["render_got"] = wantRender, string(errb)
	}
	// projection to the pool for the model
	proj := func(m map[string]string) map[string]string {
		o := map[string]string{}
		for _, n := range pool {
			if v, ok := m[n]; ok {
				o[n] = v
			}
		}
		return o
	}
	rec["proc"], rec["pipe"], rec["tenv"], rec["seen"] = proj(baseEnv), pipeEnv, taskEnv, proj(got)
	rec["task_name_seen"] = got["TASK_NAME"]
	return rec
}

// envReloadRound: a job that waits in the queue while the definitions are replaced runs with the environment of the
// definition it was scheduled with; a job scheduled afterwards with the new one
func envReloadRound(r *hutil.Rng, pool []string, round int) {
	script := []string{"env -0", "sleep 0.7", "cat >&2 <<'" + heredoc + "'\n" + varTemplate + "\n" + heredoc}
	mk := func(ver string, names []string, tnames []string) (map[string]string, map[string]string) {
		pe, te := map[string]string{}, map[string]string{}
		for _, n := range names {
			pe[n] = "pipe-" + ver + ":" + weirdValue(r)
		}
		for _, n := range tnames {
			te[n] = "task-" + ver + ":" + weirdValue(r)
		}
		return pe, te
	}
	pe1, te1 := mk("v1", []string{"VA", "VB", "VC"}, []string{"VC", "VD"})
	pe2, te2 := mk("v2", []string{"VA", "VE", "VD"}, []string{"VC", "VF"})
	os.Setenv("VB", "proc:vb")
	os.Setenv("VE", "proc:ve")
	defer os.Unsetenv("VB")
	defer os.Unsetenv("VE")
	defs1 := map[string]PipeDef{"r": {Concurrency: 1, Env: pe1, Tasks: map[string]TaskDef{"a": {Env: te1, Script: script}}}}
	defs2 := map[string]PipeDef{"r": {Concurrency: 1, Env: pe2, Tasks: map[string]TaskDef{"a": {Env: te2, Script: append([]string{"true"}, script...)}}}}
	a, err := startApp(defs1, "--watch", "--poll-interval", "40ms")
	if err != nil {
		emit(map[string]interface{}{"kind": "error", "round": round, "what": err.Error()})
		return
	}
	defer a.Stop()
	baseEnv := map[string]string{}
	for _, kv := range os.Environ() {
		i := strings.IndexByte(kv, '=')
		baseEnv[kv[:i]] = kv[i+1:]
	}
	mkVars := func(own string) map[string]interface{} {
		return map[string]interface{}{"v1": weirdVar(r), "v2": "", "n": 1, "b": true, "m": map[string]interface{}{"k": "k"}, "l": []interface{}{}, "own": own}
	}
	v1, v2, v3 := mkVars("reload-1"), mkVars("reload-2"), mkVars("reload-3")
	id1, _, _ := a.Schedule("r", v1)
	id2, _, _ := a.Schedule("r", v2)
	if id1 == "" || id2 == "" {
		emit(map[string]interface{}{"kind": "error", "round": round, "what": "reload round: schedule failed"})
		return
	}
	// a job accepted after the file changed must see the new definitions; the poll needs a moment (longer on a loaded machine), so the
	// request is repeated a few times before a stale environment counts
	after := func(pe, te map[string]string, vars map[string]interface{}, j int) map[string]interface{} {
		var rec map[string]interface{}
		for try := 1; try <= 6; try++ {
			time.Sleep(400 * time.Millisecond)
			id, st, msg := a.Schedule("r", vars)
			if id == "" {
				rec = map[string]interface{}{"kind": "error", "round": round, "what": fmt.Sprintf("reload round: schedule failed %d %s", st, msg)}
				continue
			}
			a.WaitDone(id, 30*time.Second)
			rec = checkTaskEnv(a, pool, baseEnv, round, j, id, "r", pe, "a", te, vars)
			rec["tries"] = try
			if ok, _ := rec["ok"].(bool); ok {
				break
			}
		}
		return rec
	}
	if err := a.WriteDefs(defs2); err != nil {
		emit(map[string]interface{}{"kind": "error", "round": round, "what": err.Error()})
		return
	}
	rec3 := after(pe2, te2, v3, 2)
	for _, id := range []string{id1, id2} {
		a.WaitDone(id, 30*time.Second)
	}
	// a second change that only renames one variable at each level (same number of entries, same values)
	pe3, te3 := map[string]string{}, map[string]string{}
	for k, v := range pe2 {
		pe3[k] = v
	}
	for k, v := range te2 {
		te3[k] = v
	}
	pe3["V_G"] = pe3["VA"]
	delete(pe3, "VA")
	te3["V9"] = te3["VF"]
	delete(te3, "VF")
	defs3 := map[string]PipeDef{"r": {Concurrency: 1, Env: pe3, Tasks: map[string]TaskDef{"a": {Env: te3, Script: append([]string{"true"}, script...)}}}}
	if err := a.WriteDefs(defs3); err != nil {
		emit(map[string]interface{}{"kind": "error", "round": round, "what": err.Error()})
		return
	}
	rec4 := after(pe3, te3, mkVars("reload-4"), 3)
	// ... and one that only adds a variable at each level
	pe4, te4 := map[string]string{}, map[string]string{}
	for k, v := range pe3 {
		pe4[k] = v
	}
	for k, v := range te3 {
		te4[k] = v
	}
	pe4["VB"] = "pipe-v4:added"
	te4["v_lower"] = "task-v4:added"
	defs4 := map[string]PipeDef{"r": {Concurrency: 1, Env: pe4, Tasks: map[string]TaskDef{"a": {Env: te4, Script: append([]string{"true"}, script...)}}}}
	if err := a.WriteDefs(defs4); err != nil {
		emit(map[string]interface{}{"kind": "error", "round": round, "what": err.Error()})
		return
	}
	rec5 := after(pe4, te4, mkVars("reload-5"), 4)
	labels := []string{"running during reload", "queued during reload", "scheduled after reload", "scheduled after a reload that only renames variables", "scheduled after a reload that only adds variables"}
	for j, x := range []struct {
		id   string
		vars map[string]interface{}
	}{{id1, v1}, {id2, v2}} {
		rec := checkTaskEnv(a, pool, baseEnv, round, j, x.id, "r", pe1, "a", te1, x.vars)
		rec["reload"] = labels[j]
		emit(rec)
	}
	for j, rec := range []map[string]interface{}{rec3, rec4, rec5} {
		if rec != nil {
			rec["reload"] = labels[2+j]
			emit(rec)
		}
	}
}

#!/usr/bin/env python3
"""C09 — the store file is always a complete snapshot. Proof: coq/Properties/C09.v over StoreFS.v.
Tie to store/store.go: (1) the system calls of real saves (strace) are translated and checked against the protocol in Coq;
(2) behavioural runs on the real JsonDataStore: sequential saves incl. unencodable payloads, overlapping saves with concurrent
readers, saves in a child process that is SIGKILLed at random instants."""
import json
import os
import sys

sys.path.insert(0, os.path.dirname(os.path.abspath(__file__)))
from storelib import *  # noqa


def main():
    ctx = Ctx("C09", sys.argv[1:])
    proof_ok = proof_evidence(ctx, extra_files=["Corr/StoreCorr.v"])
    bins = build_harness(ctx, ["storerun"])
    if bins is None:
        violation(ctx, {"what": "harness does not build against the repository working tree", "broken": "correspondence storerun"}, found_input=False)
        finish(ctx)
    if ctx.replay:
        rp = json.load(open(ctx.replay if os.path.isabs(ctx.replay) else os.path.join(VERIF, ctx.replay)))
        res = run_store(ctx, bins, rp["mode"], rp["seed"], rp["n"], "rp")
        bad = [r for r in res if not r["ok"]]
        ctx.log("replay:", bad[:2])
        if bad:
            violation(ctx, rp)
        finish(ctx)
    q = ctx.tier == "quick"
    runs = [("seq", ctx.seed, 300 if q else 3000), ("overlap", ctx.seed, 25 if q else 150), ("overlap", ctx.seed + 1, 25 if q else 150),
            ("kill", ctx.seed, 12 if q else 120)]
    allres, bad = [], []
    for mode, seed, n in runs:
        res = run_store(ctx, bins, mode, seed, n)
        allres += res
        for r in res:
            if not r["ok"]:
                bad.append((mode, seed, n, r))
    ops, raw = strace_ops(ctx, bins, ctx.seed)
    conf = None
    if ops is None:
        ctx.log("strace not usable:", raw)
    else:
        conf = conforms_in_coq(ctx, ops)
    classes = {}
    for r in allres:
        k = r["kind"] + "/" + (r.get("class") or "")
        classes[k] = classes.get(k, 0) + 1
    ctx.coverage.update({
        "evaluations": len(allres),
        "distinct_nontrivial": len({json.dumps(r, sort_keys=True) for r in allres}),
        "rule": "seq: generated snapshots (1-600 jobs, variables of every JSON type, 1 in 8 unencodable) saved one after the other, each followed by a "
                "load in a fresh store object; overlap: 4 writers x n saves with 3 concurrent readers; kill: child process saving in a loop, "
                "SIGKILLed after 5-65 ms, then loaded; trace: system calls of 4 saves under strace -f -y checked against the protocol in Coq",
        "samples": allres[:2] + [r for r in allres if r["kind"] != "seq"][:2],
        "classes": classes,
        "syscall_ops": len(ops) if ops else 0,
        "syscall_trace_conforms": conf,
        "syscall_sample": (raw or [])[:6],
        "traces_validated_against_impl": 1 if conf else 0,
    })
    ctx.assumptions = ["rename(2) replaces the target atomically; data written before the process is killed stays in the page cache (POSIX/Linux)",
                       "power loss (no fsync) is outside the property", "jsoniter encoding/decoding is exercised, not modelled"]
    if not proof_ok:
        violation(ctx, {"what": "Coq development for C09 does not check", "broken": "Properties/C09.v or its dependencies"}, found_input=False)
    for mode, seed, n, r in bad[:3]:
        violation(ctx, {"what": r.get("what"), "mode": mode, "seed": seed, "n": n, "case": r})
    if conf is False and not bad:
        # the protocol is not followed: look harder for a failing input
        more = []
        for extra in range(1, 4):
            for mode, n in (("overlap", 60), ("kill", 30), ("seq", 600)):
                res = run_store(ctx, bins, mode, ctx.seed + 100 * extra, n, "x")
                more += [(mode, ctx.seed + 100 * extra, n, r) for r in res if not r["ok"]]
            if more:
                break
        if more:
            mode, seed, n, r = more[0]
            violation(ctx, {"what": r.get("what"), "mode": mode, "seed": seed, "n": n, "case": r})
        else:
            violation(ctx, {"what": "the system calls of Save do not follow the temp-file/rename protocol of StoreFS.v, but no run produced a broken store file",
                            "broken": "translation validation strace -> Corr/StoreCorr.v conforms (theorems of Properties/C09.v are about a protocol the code no longer follows)",
                            "ops": ops[:60], "syscalls": raw[:20]}, found_input=False)
    if conf is None:
        violation(ctx, {"what": "system call trace could not be obtained (strace)", "broken": "translation validation for C09"}, found_input=False)
    finish(ctx)


if __name__ == "__main__":
    main()

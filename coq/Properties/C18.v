(** * C18 — Environment and job variables reach exactly the right task commands
    PARTIAL: the interpreter (mvdan/sh), text/template rendering and exec are exercised by the check (real processes dump
    their environment), not modelled; the theorems are about the merge chain and the reserved-name rule. *)
From stdpp Require Import gmap strings.
From PV Require Import Env proofs.EnvProps.

(** for every process environment (duplicates allowed, last wins), pipeline env, task env, and every order in which the
    job environment container is listed: a command sees, for each well-formed name other than TASK_NAME, the task-level
    value if defined, else the pipeline-level value, else the value of the prunner process — unchanged *)
Theorem C18_precedence : ∀ name proc (pipe task : vmap) tn l,
  name ≠ "" → name ≠ "TASK_NAME" → l ≡ₚ map_to_list (job_env pipe ∅ tn task) →
  sees name proc l =
    match task !! name with
    | Some v => Some v
    | None => match pipe !! name with Some v => Some v | None => lookup_last name proc end
    end.
Proof. exact precedence. Qed.

(** the variable name reserved for job identity is refused: such a job gets no graph and never runs *)
Theorem C18_reserved_refused : ∀ (idv : string) (vars : vmap), reserved ∈ dom vars → task_vars idv vars = None.
Proof. exact (@task_vars_reserved string). Qed.

(** otherwise a task is rendered with exactly the variables of its own job, and its identity is its own id *)
Theorem C18_own_variables : ∀ (idv : string) (vars tv : vmap),
  task_vars idv vars = Some tv → tv !! reserved = Some idv ∧ ∀ n, n ≠ reserved → tv !! n = vars !! n.
Proof. exact (@task_vars_spec string). Qed.

(** nothing set for one job is visible to another: environment and variables of (job, task) are functions of that job's
    own snapshot, the task's definition and the process environment *)
Theorem C18_isolation_env : ∀ jobs jobs' proc j task name,
  jobs !! j = jobs' !! j → env_of jobs proc j task name = env_of jobs' proc j task name.
Proof. exact env_of_own. Qed.
Theorem C18_isolation_vars : ∀ jobs jobs' j, jobs !! j = jobs' !! j → vars_of jobs j = vars_of jobs' j.
Proof. exact vars_of_own. Qed.
Theorem C18_identity : ∀ jobs j d tv,
  jobs !! j = Some d → vars_of jobs j = Some tv → tv !! reserved = Some (jd_id d) ∧ ∀ n, n ≠ reserved → tv !! n = jd_vars d !! n.
Proof. exact vars_of_identity. Qed.

Example C18_ex :
  let proc := [("A", "p1"); ("B", "p2"); ("A", "p3"); ("C", "p4"); ("", "x")] in
  let pipe : vmap := list_to_map [("B", "pipe b"); ("D", "pipe=d"); ("TASK_NAME", "zz")] in
  let task : vmap := list_to_map [("D", "task $d")] in
  map (fun n => sees_run n proc pipe task "build") ["A"; "B"; "C"; "D"; "E"; "TASK_NAME"]
  = [Some "p3"; Some "pipe b"; Some "p4"; Some "task $d"; None; Some "build"].
Proof. vm_compute. done. Qed.

Print Assumptions C18_precedence.
Print Assumptions C18_reserved_refused.
Print Assumptions C18_own_variables.
Print Assumptions C18_isolation_env.
Print Assumptions C18_isolation_vars.
Print Assumptions C18_identity.

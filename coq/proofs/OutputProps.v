(** Properties of the output model (C19) *)
From stdpp Require Import list strings.
From Coq Require Import NArith Lia.
From PV Require Import Output.

(** ** path injectivity *)
Lemma length_app_s (a b : string) : String.length (a ++ b)%string = String.length a + String.length b.
Proof. induction a as [|c a IH]; [done|]. simpl. f_equal. apply IH. Qed.

Lemma app_inj_len (a b s1 s2 : string) : String.length s1 = String.length s2 → (a ++ s1 = b ++ s2)%string → a = b ∧ s1 = s2.
Proof.
  revert b. induction a as [|c a IH]; intros [|d b] Hl H; simpl in *.
  - done.
  - apply (f_equal String.length) in H. change (String d b +:+ s2) with (String d (b +:+ s2)) in H. simpl in H. rewrite !length_app_s in H. simpl in H. lia.
  - apply (f_equal String.length) in H. change (String c a +:+ s1) with (String c (a +:+ s1)) in H. simpl in H. rewrite !length_app_s in H. simpl in H. lia.
  - change (String c (a +:+ s1) = String d (b +:+ s2)) in H. injection H as -> H. destruct (IH b Hl H) as [-> ->]. done.
Qed.

Lemma file_name_inj t1 s1 t2 s2 : file_name t1 s1 = file_name t2 s2 → t1 = t2 ∧ s1 = s2.
Proof.
  unfold file_name. intros H.
  apply app_inj_len in H; [|by destruct s1, s2].
  destruct H as [-> H]. split; [done|]. destruct s1, s2; simpl in H; try done; discriminate.
Qed.

Lemma build_path_inj k1 k2 : build_path k1 = build_path k2 → k1 = k2.
Proof.
  destruct k1 as [[j1 t1] s1], k2 as [[j2 t2] s2]. simpl. intros [= -> H].
  apply file_name_inj in H as [-> ->]. done.
Qed.

(** ** frame: events of other keys / jobs leave a file alone *)
Definition touches (k : key) (e : ev) : bool :=
  match e with EOpen k' | EWrite k' _ => bool_decide (k' = k) | ERemove j => bool_decide (k.1.1 = j) end.

Lemma apply_other f e k : touches k e = false → apply f e k = f k.
Proof.
  destruct e as [k'|k' d|j]; simpl; intros H.
  - apply bool_decide_eq_false in H. unfold fs_set. rewrite decide_False; [done|]. naive_solver.
  - apply bool_decide_eq_false in H. destruct (f k'); [|done]. unfold fs_set. rewrite decide_False; [done|]. naive_solver.
  - apply bool_decide_eq_false in H. by rewrite decide_False.
Qed.

(** the content of a file after an event depends only on its content before *)
Lemma apply_agree g g' e k : g k = g' k → apply g e k = apply g' e k.
Proof.
  intros Hg. destruct e as [k'|k' d|j]; simpl.
  - unfold fs_set. by destruct (decide (k = k')).
  - destruct (decide (k' = k)) as [->|Hne].
    + rewrite Hg. destruct (g' k) eqn:E; [|congruence]. unfold fs_set. by rewrite !decide_True.
    + transitivity (g k); [|transitivity (g' k); [done|]].
      * destruct (g k'); [|done]. unfold fs_set. rewrite decide_False; [done|]. naive_solver.
      * destruct (g' k'); [|done]. unfold fs_set. rewrite decide_False; [done|]. naive_solver.
  - by destruct (decide _).
Qed.

Lemma exec_agree tr g g' k : g k = g' k → exec tr g k = exec tr g' k.
Proof.
  revert g g'. induction tr as [|e tr IH]; intros g g' Hg; [done|].
  unfold exec in *. simpl. apply IH. by apply apply_agree.
Qed.

Lemma exec_cons e tr f : exec (e :: tr) f = exec tr (apply f e). Proof. done. Qed.

Lemma exec_frame tr f k : Forall (fun e => touches k e = false) tr → exec tr f k = f k.
Proof.
  revert f. induction tr as [|e tr IH]; intros f H; [done|]. inversion H; subst.
  rewrite exec_cons, IH; [|done]. by apply apply_other.
Qed.

(** content depends only on the events touching the key *)
Lemma exec_filter tr f k : exec tr f k = exec (List.filter (touches k) tr) f k.
Proof.
  revert f. induction tr as [|e tr IH]; intros f; [done|].
  rewrite exec_cons. simpl. destruct (touches k e) eqn:E.
  - rewrite exec_cons. apply IH.
  - rewrite <- IH. apply exec_agree. by apply apply_other.
Qed.

Lemma exec_writes k ds f c : f k = Some c → exec (map (EWrite k) ds) f k = Some (c ++ concat ds).
Proof.
  revert f c. induction ds as [|d ds IH]; intros f c Hf.
  - simpl. by rewrite app_nil_r.
  - change (map (EWrite k) (d :: ds)) with (EWrite k d :: map (EWrite k) ds). rewrite exec_cons. cbn [concat]. rewrite (IH _ (c ++ d)).
    + by rewrite <- app_assoc.
    + simpl. rewrite Hf. unfold fs_set. by rewrite decide_True.
Qed.

Lemma filter_writes j t s (cs : list chunk) :
  List.filter (touches (j, t, s)) (map (fun c : chunk => EWrite (j, t, c.1) c.2) cs)
  = map (EWrite (j, t, s)) (map snd (List.filter (fun c : chunk => bool_decide (c.1 = s)) cs)).
Proof.
  induction cs as [|[s' d] cs IH]; [done|]. simpl.
  destruct (decide (s' = s)) as [->|Hne].
  - rewrite !bool_decide_eq_true_2 by done. simpl. by rewrite IH.
  - rewrite !bool_decide_eq_false_2; [done|done|]. naive_solver.
Qed.

(** the run's own events produce exactly its chunks *)
Lemma run_content j t cmds s f :
  exec (List.filter (touches (j, t, s)) (run_events j t cmds)) f (j, t, s) = Some (stream_of s cmds).
Proof.
  unfold run_events, stream_of.
  cbn [List.filter touches]. rewrite filter_writes.
  destruct s.
  - rewrite bool_decide_eq_true_2 by done. rewrite bool_decide_eq_false_2 by (intros [=]).
    rewrite exec_cons, (exec_writes _ _ _ []); [done|]. simpl. unfold fs_set. by rewrite decide_True.
  - rewrite bool_decide_eq_false_2 by (intros [=]). rewrite bool_decide_eq_true_2 by done.
    rewrite exec_cons, (exec_writes _ _ _ []); [done|]. simpl. unfold fs_set. by rewrite decide_True.
Qed.

Lemma filter_filter_sub {A} (p q : A → bool) l : (∀ x, p x = true → q x = true) → List.filter p (List.filter q l) = List.filter p l.
Proof.
  intros H. induction l as [|x l IH]; [done|]. simpl. destruct (q x) eqn:Q; simpl.
  - destruct (p x); by rewrite IH.
  - destruct (p x) eqn:P; [|done]. apply H in P. congruence.
Qed.

Lemma touches_of_run j t s e : touches (j, t, s) e = true → of_run j t e = true.
Proof.
  destruct e as [[[j' t'] s']|[[j' t'] s'] d|j']; simpl; intros H; apply bool_decide_eq_true in H.
  - injection H as -> -> ->. by rewrite !bool_decide_eq_true_2.
  - injection H as -> -> ->. by rewrite !bool_decide_eq_true_2.
  - subst. by rewrite bool_decide_eq_true_2.
Qed.

(** whatever else happens in the store, in whatever interleaving: if the events concerning (job, task) are those of one
    run of the task, each of its two files holds exactly the chunks written to that stream, in order *)
Lemma content_of_run tr f j t cmds s :
  List.filter (of_run j t) tr = run_events j t cmds → exec tr f (j, t, s) = Some (stream_of s cmds).
Proof.
  intros H. rewrite exec_filter.
  rewrite <- (filter_filter_sub _ (of_run j t)) by apply touches_of_run.
  rewrite H. apply run_content.
Qed.

(** ** interleavings *)
Lemma interleave_filter {A} (p : nat → A → bool) ls tr :
  interleave ls tr →
  (∀ i l x, ls !! i = Some l → x ∈ l → ∀ i', p i' x = bool_decide (i' = i)) →
  ∀ i l, ls !! i = Some l → List.filter (p i) tr = l.
Proof.
  induction 1 as [ls Hnil|ls i0 x l0 tr Hi0 Hil IH]; intros Hp i l Hi.
  - rewrite Forall_lookup in Hnil. by rewrite (Hnil _ _ Hi).
  - assert (Hp' : ∀ i l x, <[i0:=l0]> ls !! i = Some l → x ∈ l → ∀ i', p i' x = bool_decide (i' = i)).
    { intros i1 l1 x1 Hl1 Hx1. destruct (decide (i1 = i0)) as [->|Hne].
      - rewrite list_lookup_insert in Hl1 by (by eapply lookup_lt_Some). injection Hl1 as <-.
        apply (Hp _ _ _ Hi0). by right.
      - rewrite list_lookup_insert_ne in Hl1 by done. by apply (Hp _ _ _ Hl1). }
    simpl. rewrite (Hp _ _ x Hi0) by (by left).
    destruct (decide (i = i0)) as [->|Hne].
    + rewrite bool_decide_eq_true_2 by done. rewrite Hi0 in Hi. injection Hi as <-. f_equal.
      apply (IH Hp'). apply list_lookup_insert. by eapply lookup_lt_Some.
    + rewrite bool_decide_eq_false_2 by done. apply (IH Hp'). by rewrite list_lookup_insert_ne.
Qed.

Notation run := (string * string * list cmd)%type.
Definition run_evs (r : run) : list ev := run_events r.1.1 r.1.2 r.2.
Definition run_id (r : run) : string * string := (r.1.1, r.1.2).

Lemma of_run_run_events j t cmds e j' t' : e ∈ run_events j t cmds → of_run j' t' e = bool_decide ((j', t') = (j, t)).
Proof.
  unfold run_events. intros He.
  assert (Hk : ∃ s, e = EOpen (j, t, s) ∨ ∃ d, e = EWrite (j, t, s) d).
  { apply elem_of_cons in He as [->|He]; [by exists Stdout; left|].
    apply elem_of_cons in He as [->|He]; [by exists Stderr; left|].
    apply elem_of_list_fmap in He as ([s d] & -> & _). exists s. right. by exists d. }
  destruct Hk as (s & [->|[d ->]]); simpl.
  all: destruct (decide (j = j')) as [->|Hj]; destruct (decide (t = t')) as [->|Ht];
    rewrite ?bool_decide_eq_true_2 by done; try done;
    rewrite ?(bool_decide_eq_false_2 (j = j')) by done; rewrite ?(bool_decide_eq_false_2 (t = t')) by done;
    rewrite ?andb_false_r; simpl; symmetry; apply bool_decide_eq_false; naive_solver.
Qed.

(** any number of runs with pairwise different (job, task), their events interleaved arbitrarily: every run finds
    exactly its own output in its own two files *)
Lemma concurrent_runs (runs : list run) tr f :
  NoDup (map run_id runs) → interleave (map run_evs runs) tr →
  ∀ j t cmds s, (j, t, cmds) ∈ runs → exec tr f (j, t, s) = Some (stream_of s cmds).
Proof.
  intros Hnd Hil j t cmds s Hin.
  apply elem_of_list_lookup in Hin as [i Hi].
  apply content_of_run.
  set (p := fun (i : nat) (e : ev) => match runs !! i with Some r => of_run r.1.1 r.1.2 e | None => false end).
  assert (Hf := interleave_filter p _ _ Hil).
  specialize (Hf) as Hf'. clear Hf.
  assert (Hp : ∀ i l x, map run_evs runs !! i = Some l → x ∈ l → ∀ i', p i' x = bool_decide (i' = i)).
  { intros i1 l x Hl Hx i'. rewrite list_lookup_fmap in Hl. destruct (runs !! i1) as [[[j1 t1] c1]|] eqn:E1; [|done].
    injection Hl as <-. unfold run_evs in Hx. simpl in Hx. unfold p.
    destruct (runs !! i') as [[[j2 t2] c2]|] eqn:E2; simpl.
    - rewrite (of_run_run_events _ _ _ _ _ _ Hx).
      destruct (decide (i' = i1)) as [->|Hne].
      + pose proof (eq_trans (eq_sym E1) E2) as [= -> -> ->]. by rewrite !bool_decide_eq_true_2.
      + rewrite (bool_decide_eq_false_2 (i' = i1)) by done. apply bool_decide_eq_false. intros Heq.
        apply Hne. eapply (NoDup_lookup _ _ _ _ Hnd); rewrite list_lookup_fmap.
        * erewrite (proj2 (fmap_Some _ _ _)); [done|]. eexists. split; [exact E2|]. unfold run_id. simpl. by rewrite Heq.
        * erewrite (proj2 (fmap_Some _ _ _)); [done|]. eexists. split; [exact E1|]. done.
    - symmetry. apply bool_decide_eq_false. intros ->. pose proof (eq_trans (eq_sym E1) E2) as HH. discriminate HH. }
  specialize (Hf' Hp i (run_evs (j, t, cmds))).
  unfold p in Hf'. rewrite Hi in Hf'. simpl in Hf'. apply Hf'. rewrite list_lookup_fmap. by rewrite Hi.
Qed.

(** files of keys no event touches are unchanged *)
Lemma untouched_unchanged tr f k : Forall (fun e => touches k e = false) tr → exec tr f k = f k.
Proof. apply exec_frame. Qed.

(** ** the log request *)
Lemma logs_unknown_refused f job tasks t : t ∉ tasks → logs_request f job tasks t = None.
Proof. intros H. unfold logs_request. by rewrite bool_decide_eq_false_2. Qed.

Lemma logs_known f job tasks t : t ∈ tasks →
  logs_request f job tasks t = Some (default [] (f (job, t, Stdout)), default [] (f (job, t, Stderr))).
Proof. intros H. unfold logs_request. by rewrite bool_decide_eq_true_2. Qed.

Lemma logs_of_run tr f j t cmds tasks :
  t ∈ tasks → List.filter (of_run j t) tr = run_events j t cmds →
  logs_request (exec tr f) j tasks t = Some (stream_of Stdout cmds, stream_of Stderr cmds).
Proof. intros Ht H. rewrite logs_known by done. by rewrite !(content_of_run _ _ _ _ cmds). Qed.

package prunner

// Demonstration of defect D16 (see /verif/DESIGN.md section 5). Copy into /repo as zz_defects_test.go; run with -race.
// taskctl.TaskRunner.Run registered the task in the runner's WaitGroup (wg.Add(1)) without any ordering against the wg.Wait()
// of a concurrent Cancel: when a job is canceled while its scheduler starts the next task, Add (from zero) and Wait race.

import (
	"sync"
	"testing"
	"time"

	"github.com/stretchr/testify/require"
	"github.com/taskctl/taskctl/pkg/task"
	"github.com/taskctl/taskctl/pkg/variables"

	"github.com/Flowpack/prunner/taskctl"
	"github.com/Flowpack/prunner/test"
)

func TestDefectD16_RunDuringCancelIsNotARace(t *testing.T) {
	mk := func(name, cmd string) *task.Task {
		tk := task.FromCommands(cmd)
		tk.Name = name
		tk.Variables = variables.FromMap(map[string]string{taskctl.JobIDVariableName: "00000000-0000-0000-0000-000000000001"})
		return tk
	}
	for round := 0; round < 3; round++ {
		tr, err := taskctl.NewTaskRunner(test.NewMockOutputStore())
		require.NoError(t, err)
		var wg sync.WaitGroup
		wg.Add(3)
		go func() { // a running task
			defer wg.Done()
			_ = tr.Run(mk("a", "sleep 0.3"))
		}()
		time.Sleep(50 * time.Millisecond)
		go func() { // the scheduler starts the next task a moment after the cancel (no ordering with the cancel goroutine)
			defer wg.Done()
			time.Sleep(150 * time.Millisecond)
			_ = tr.Run(mk("b", "true"))
		}()
		go func() { // the cancel: waits for the running task
			defer wg.Done()
			tr.Cancel()
		}()
		wg.Wait()
	}
}

package prunner

// Demonstration of defect D11 (see /verif/DESIGN.md section 5). Copy into /repo as zz_defects_test.go.
// taskctl/scheduler.go runStage merged the task's *environment* into its template *variables*
// (t.Variables = t.Env.Merge(stage.Variables)): task-level env values were parsed as templates, so a value containing
// "{{" made the task fail before any command ran, and scripts were rendered with the env names as extra variables.

import (
	"context"
	"os"
	"testing"
	"time"

	"github.com/stretchr/testify/require"
	"github.com/taskctl/taskctl/pkg/variables"

	"github.com/Flowpack/prunner/definition"
	"github.com/Flowpack/prunner/taskctl"
)

func TestDefectD11_TaskEnvValueIsNotATemplate(t *testing.T) {
	dir := t.TempDir()
	outputStore, err := taskctl.NewOutputStore(dir)
	require.NoError(t, err)
	defs := &definition.PipelinesDef{Pipelines: map[string]definition.PipelineDef{
		"p": {Concurrency: 1, QueueLimit: nil, Tasks: map[string]definition.TaskDef{
			"a": {Script: []string{"printf '%s' \"$VC\""}, Env: map[string]string{"VC": "x{{y"}},
		}, SourcePath: "f"},
		"q": {Concurrency: 1, QueueLimit: nil, Tasks: map[string]definition.TaskDef{
			"a": {Script: []string{"echo [{{.VC}}]"}, Env: map[string]string{"VC": "from-env"}},
		}, SourcePath: "f"},
	}}
	r, err := NewPipelineRunner(context.Background(), defs, func(j *PipelineJob) taskctl.Runner {
		tr, _ := taskctl.NewTaskRunner(outputStore, taskctl.WithEnv(variables.FromMap(j.Env)))
		tr.Stdout, tr.Stderr = os.Stderr, os.Stderr
		return tr
	}, nil, outputStore)
	require.NoError(t, err)

	wait := func(j *PipelineJob) {
		for i := 0; i < 2000; i++ {
			done := false
			_ = r.ReadJob(j.ID, func(j *PipelineJob) { done = j.Completed })
			if done {
				return
			}
			time.Sleep(5 * time.Millisecond)
		}
		t.Fatal("job did not finish")
	}

	j1, err := r.ScheduleAsync("p", ScheduleOpts{})
	require.NoError(t, err)
	wait(j1)
	b, _ := os.ReadFile(dir + "/" + j1.ID.String() + "/a-stdout.log")
	require.Equal(t, "x{{y", string(b), "the command must see the task-level value unchanged")

	// the script is rendered with the variables of the job only: the env name is not a variable
	j2, err := r.ScheduleAsync("q", ScheduleOpts{})
	require.NoError(t, err)
	wait(j2)
	b, _ = os.ReadFile(dir + "/" + j2.ID.String() + "/a-stdout.log")
	require.NotContains(t, string(b), "from-env", "task env must not leak into the template variables of the script")
}

(** * Defs: pipeline definitions, defaults, validation, loader, equality (definition/pipelines.go, definition/loader.go)

    Model only (no proofs here, so the model still evaluates when a proof breaks).
    Maps are std++ [gmap string _]: Leibniz equality is "same configuration", and Go's nil map / empty map
    (resp. nil / empty slice) collapse by construction, exactly as Go's [len]-based comparisons treat them. *)
From stdpp Require Import gmap strings.
From Coq Require Import ZArith.
Local Open Scope Z_scope.

Inductive strat := Append | Replace.
Global Instance strat_eq_dec : EqDecision strat.
Proof. solve_decision. Defined.

(** TaskDef *)
Record taskdef := TaskDef {
  t_script : list string;
  t_deps : list string;
  t_allow : bool;
  t_env : gmap string string }.

(** PipelineDef as it comes out of the YAML decoder (raw): the strategy is still a string *)
Record rawpdef := RawPDef {
  r_concurrency : Z;
  r_queue_limit : option Z;
  r_strategy : option string;        (* None: key absent *)
  r_start_delay : Z;
  r_continue : bool;
  r_ret_period : Z;
  r_ret_count : Z;
  r_env : gmap string string;
  r_tasks : gmap string taskdef }.

(** PipelineDef after decoding *)
Record pdef := PDef {
  concurrency : Z;
  queue_limit : option Z;
  strategy : strat;
  start_delay : Z;
  continue_after_failure : bool;
  ret_period : Z;
  ret_count : Z;
  penv : gmap string string;
  ptasks : gmap string taskdef;
  source_path : string }.

Notation pdefs := (gmap string pdef) (only parsing).

(** QueueStrategy.UnmarshalYAML *)
Definition parse_strategy (s : option string) : option strat :=
  match s with
  | None => Some Append
  | Some s => if String.eqb s "append" then Some Append
              else if String.eqb s "replace" then Some Replace else None
  end.

(** setDefaults *)
Definition default_concurrency (c : Z) : Z := if c =? 0 then 1 else c.

(** PipelineDef.validate *)
Definition deps_ok (ts : gmap string taskdef) : bool :=
  forallb (fun kv => forallb (fun d => bool_decide (is_Some (ts !! d))) (t_deps (snd kv))) (map_to_list ts).

Definition validate (p : pdef) : bool :=
  (0 <? concurrency p)
  && match queue_limit p with Some q => 0 <=? q | None => true end
  && (0 <=? start_delay p)
  && negb ((0 <? start_delay p) && match queue_limit p with Some q => q =? 0 | None => false end)
  && deps_ok (ptasks p).

(** decoding of one pipeline of one file: strategy parse + setDefaults; [path] becomes SourcePath *)
Definition decode_pdef (path : string) (r : rawpdef) : option pdef :=
  match parse_strategy (r_strategy r) with
  | None => None
  | Some st => Some (PDef (default_concurrency (r_concurrency r)) (r_queue_limit r) st (r_start_delay r)
                          (r_continue r) (r_ret_period r) (r_ret_count r) (r_env r) (r_tasks r) path)
  end.

(** PipelinesDef.Load for one file: the whole file fails to decode if one strategy is unknown; then every
    pipeline is checked for an earlier declaration and validated. The entries are processed in the order
    of the given list (Go: map iteration order — see [load_file_order_irrelevant]). *)
Definition decode_file (path : string) (entries : list (string * rawpdef)) : option (list (string * pdef)) :=
  mapM (fun kv => p ← decode_pdef path (snd kv); Some (fst kv, p)) entries.

Fixpoint add_entries (acc : pdefs) (es : list (string * pdef)) : option pdefs :=
  match es with
  | [] => Some acc
  | (n, p) :: es =>
      match acc !! n with
      | Some _ => None                       (* "pipeline was already declared" *)
      | None => if validate p then add_entries (<[n := p]> acc) es else None
      end
  end.

Definition file := (string * list (string * rawpdef))%type.    (* path, decoded YAML mapping (distinct keys) *)

Definition load_file (acc : pdefs) (f : file) : option pdefs :=
  es ← decode_file (fst f) (snd f); add_entries acc es.

(** LoadRecursively: the files in the order given (Go: sorted by path; the result does not depend on the
    order, theorem C17_order_independent). [None] = an error is returned. *)
Fixpoint load_from (acc : pdefs) (fs : list file) : option pdefs :=
  match fs with
  | [] => Some acc
  | f :: fs => match load_file acc f with Some acc' => load_from acc' fs | None => None end
  end.

Definition load (fs : list file) : option pdefs := load_from ∅ fs.

(** ** Equals *)
Definition str_slice_equals (a b : list string) : bool := bool_decide (a = b).

(** Go's map comparison idiom: [len(a) != len(b)] → false; then for every (k,v) of a: b has k, with an equal value *)
Definition map_equals {A} (eqA : A → A → bool) (a b : gmap string A) : bool :=
  (size a =? size b)%nat
  && forallb (fun kv => match b !! (fst kv) with Some v => eqA (snd kv) v | None => false end) (map_to_list a).

Definition env_equals : gmap string string → gmap string string → bool := map_equals String.eqb.

(** the unrepaired comparison (defect D8): a missing key reads as "" *)
Definition env_equals_d8 (a b : gmap string string) : bool :=
  (size a =? size b)%nat
  && forallb (fun kv => String.eqb (snd kv) (default "" (b !! (fst kv)))) (map_to_list a).

Definition taskdef_equals (a b : taskdef) : bool :=
  str_slice_equals (t_script a) (t_script b)
  && str_slice_equals (t_deps a) (t_deps b)
  && Bool.eqb (t_allow a) (t_allow b)
  && env_equals (t_env a) (t_env b).

Definition tasks_equals : gmap string taskdef → gmap string taskdef → bool := map_equals taskdef_equals.

Definition opt_z_equals (a b : option Z) : bool :=
  match a, b with
  | None, None => true
  | Some x, Some y => x =? y
  | _, _ => false
  end.

Definition pdef_equals (a b : pdef) : bool :=
  (concurrency a =? concurrency b)
  && opt_z_equals (queue_limit a) (queue_limit b)
  && bool_decide (strategy a = strategy b)
  && (start_delay a =? start_delay b)
  && Bool.eqb (continue_after_failure a) (continue_after_failure b)
  && (ret_period a =? ret_period b)
  && (ret_count a =? ret_count b)
  && env_equals (penv a) (penv b)
  && tasks_equals (ptasks a) (ptasks b)
  && String.eqb (source_path a) (source_path b).

Definition pdefs_equals : pdefs → pdefs → bool := map_equals pdef_equals.

(** ** The specification side: what "valid" means (property C17) *)
Definition valid_pdef (p : pdef) : Prop :=
  1 <= concurrency p
  ∧ (∀ q, queue_limit p = Some q → 0 <= q)
  ∧ 0 <= start_delay p
  ∧ (0 < start_delay p → queue_limit p ≠ Some 0)
  ∧ (∀ n t d, ptasks p !! n = Some t → d ∈ t_deps t → is_Some (ptasks p !! d)).

#!/bin/bash
# usage: coqgoal.sh file.v LINE  — shows the goal just before line LINE (1-based) of file.v (in /verif/coq)
f=$1; n=$2
tmp=$(mktemp -d /verif/work/goal.XXXX)
head -n $((n-1)) "$f" > $tmp/G.v
echo "Show. Abort All." >> $tmp/G.v 2>/dev/null
(cd /verif/coq && timeout 120 coqc -Q . PV -w none $tmp/G.v 2>&1 | tail -${3:-40})
rm -rf $tmp

(** Basic lemmas about the abstract runner machine: wait-list maps, job updates, effect of try_start / dequeue *)
From stdpp Require Import list.
From Coq Require Import ZArith Lia.
From PV Require Import Runner.
Local Open Scope Z_scope.

Lemma wl_get_set_eq w p l : wl_get (wl_set w p l) p = l.
Proof.
  induction w as [|[q l'] w IH]; simpl.
  - by rewrite Nat.eqb_refl.
  - destruct (Nat.eqb q p) eqn:E; simpl; rewrite E; done.
Qed.

Lemma wl_get_set_ne w p q l : p ≠ q → wl_get (wl_set w p l) q = wl_get w q.
Proof.
  intros Hne. induction w as [|[r l'] w IH]; simpl.
  - destruct (Nat.eqb_spec p q); [done|]. done.
  - destruct (Nat.eqb_spec r p) as [->|Hrp]; simpl.
    + destruct (Nat.eqb_spec p q); [done|]. done.
    + destruct (Nat.eqb_spec r q); [done|]. done.
Qed.

(** ** r_upd *)
Lemma r_upd_lookup s id f id' :
  rs_jobs (r_upd s id f) !! id' = if decide (id = id') then f <$> (rs_jobs s !! id') else rs_jobs s !! id'.
Proof.
  unfold r_upd. simpl. destruct (decide (id = id')) as [->|Hne].
  - by rewrite list_lookup_alter.
  - by rewrite list_lookup_alter_ne.
Qed.

Lemma r_upd_wait s id f : rs_wait (r_upd s id f) = rs_wait s. Proof. done. Qed.
Lemma r_upd_defs s id f : rs_defs (r_upd s id f) = rs_defs s. Proof. done. Qed.
Lemma r_upd_now s id f : rs_now (r_upd s id f) = rs_now s. Proof. done. Qed.
Lemma r_upd_shut s id f : rs_shut (r_upd s id f) = rs_shut s. Proof. done. Qed.
Lemma r_upd_length s id f : length (rs_jobs (r_upd s id f)) = length (rs_jobs s).
Proof. unfold r_upd. simpl. by rewrite alter_length. Qed.

(** ** running count under updates *)
Definition rcounts (p : name) (j : rjob) : bool := Nat.eqb (r_pipe j) p && negb (r_removed j) && r_is_running j.

Lemma r_running_count_eq s p : r_running_count s p = length (List.filter (rcounts p) (rs_jobs s)).
Proof. done. Qed.

Lemma filter_alter_length {A} (P : A → bool) (f : A → A) (l : list A) (i : nat) x :
  l !! i = Some x →
  (length (List.filter P (alter f i l)) + (if P x then 1 else 0)
   = length (List.filter P l) + (if P (f x) then 1 else 0))%nat.
Proof.
  revert i. induction l as [|y l IH]; intros [|i] Hi; simpl in *; try done.
  - injection Hi as ->. destruct (P (f x)), (P x); simpl; lia.
  - specialize (IH i Hi). unfold alter in IH. destruct (P y); simpl; lia.
Qed.

Lemma r_upd_count s id f p j :
  rs_jobs s !! id = Some j →
  (r_running_count (r_upd s id f) p + (if rcounts p j then 1 else 0)
   = r_running_count s p + (if rcounts p (f j) then 1 else 0))%nat.
Proof.
  intros Hj. rewrite !r_running_count_eq. unfold r_upd. simpl.
  by apply filter_alter_length.
Qed.

Lemma r_upd_count_same s id f p :
  (∀ j, rcounts p (f j) = rcounts p j) → r_running_count (r_upd s id f) p = r_running_count s p.
Proof.
  intros Hf. rewrite !r_running_count_eq. unfold r_upd. simpl.
  generalize (rs_jobs s). intros l. revert id. induction l as [|y l IH]; intros [|i]; simpl; try done.
  - rewrite Hf. by destruct (rcounts p y).
  - specialize (IH i). unfold alter in IH. destruct (rcounts p y); simpl; lia.
Qed.

Lemma alter_ge {A} (f : A → A) l i : (length l ≤ i)%nat → alter f i l = l.
Proof. revert i. induction l as [|x l IH]; intros [|i] H; simpl in *; try done; [lia|]. f_equal. apply IH. lia. Qed.

Lemma r_upd_count_none s id f p :
  rs_jobs s !! id = None → r_running_count (r_upd s id f) p = r_running_count s p.
Proof.
  intros Hn. rewrite !r_running_count_eq. unfold r_upd. simpl.
  rewrite alter_ge; [done|]. by apply lookup_ge_None.
Qed.

Lemma count_set_wait s p l q : r_running_count (r_set_wait s p l) q = r_running_count s q.
Proof. done. Qed.

Lemma count_app s j p :
  r_running_count (r_set_jobs s (rs_jobs s ++ [j])) p = (r_running_count s p + if rcounts p j then 1 else 0)%nat.
Proof.
  rewrite !r_running_count_eq. simpl. rewrite List.filter_app, app_length. simpl.
  destruct (rcounts p j); simpl; lia.
Qed.

(** the decision only reads defs, wait lists and running counts *)
Lemma resolve_action_ext s s' p i :
  rs_defs s' = rs_defs s → wl_get (rs_wait s') p = wl_get (rs_wait s) p → r_running_count s' p = r_running_count s p →
  r_resolve_action s' p i = r_resolve_action s p i.
Proof. intros Hd Hw Hc. unfold r_resolve_action. by rewrite Hd, Hw, Hc. Qed.

(** characterisation of the start decision *)
Lemma resolve_start_iff s p i :
  r_resolve_action s p i = AStart ↔
  (r_running_count s p < pd_conc (def_or_zero (rs_defs s) p))%nat ∧ (pd_delay (def_or_zero (rs_defs s) p) = 0%nat ∨ i = true).
Proof.
  unfold r_resolve_action.
  set (d := def_or_zero (rs_defs s) p).
  destruct (Nat.leb_spec (pd_conc d) (r_running_count s p)) as [Hle|Hlt];
    destruct (Nat.ltb_spec 0 (pd_delay d)) as [Hd|Hd]; destruct i; simpl;
    repeat case_match; (split; [intros HH; try discriminate HH; (split; [lia|first [left; lia|by right]]) | intros [HH1 [HH2|HH2]]; first [done|lia|discriminate]]).
Qed.

(** Proofs about the definition model (property C17) *)
From stdpp Require Import gmap strings.
From Coq Require Import ZArith Lia.
From PV Require Import Defs.
Local Open Scope Z_scope.

(** ** Equality *)
Lemma map_subseteq_size_eq `{Countable K} {A} (m1 m2 : gmap K A) :
  m1 ⊆ m2 → (size m2 ≤ size m1)%nat → m1 = m2.
Proof.
  intros Hsub Hsz.
  pose proof (map_difference_union m1 m2 Hsub) as Hu.
  pose proof (map_size_disj_union m1 (m2 ∖ m1) (map_disjoint_difference_r _ _ Hsub)) as Hs.
  rewrite Hu in Hs.
  assert (Hz : size (m2 ∖ m1) = 0%nat) by lia.
  apply map_size_empty_iff in Hz. rewrite Hz in Hu.
  rewrite (right_id_L ∅ (∪)) in Hu. exact Hu.
Qed.

Section map_equals.
  Context {A : Type} (eqA : A → A → bool).
  Hypothesis eqA_iff : ∀ x y, eqA x y = true ↔ x = y.

  Lemma map_equals_iff (a b : gmap string A) : map_equals eqA a b = true ↔ a = b.
  Proof.
    unfold map_equals. rewrite andb_true_iff, Nat.eqb_eq, forallb_forall. split.
    - intros [Hsz Hall]. apply map_subseteq_size_eq; [|lia].
      apply map_subseteq_spec. intros k v Hk.
      specialize (Hall (k, v)). simpl in Hall.
      rewrite <- elem_of_list_In, elem_of_map_to_list in Hall. specialize (Hall Hk).
      destruct (b !! k) as [v'|]; [|discriminate].
      apply eqA_iff in Hall. by subst.
    - intros ->. split; [done|].
      intros [k v]. rewrite <- elem_of_list_In, elem_of_map_to_list. simpl. intros ->.
      by apply eqA_iff.
  Qed.
End map_equals.

Lemma string_eqb_iff (x y : string) : String.eqb x y = true ↔ x = y.
Proof. apply String.eqb_eq. Qed.

Lemma env_equals_iff a b : env_equals a b = true ↔ a = b.
Proof. apply map_equals_iff, string_eqb_iff. Qed.

Lemma str_slice_equals_iff a b : str_slice_equals a b = true ↔ a = b.
Proof. unfold str_slice_equals. apply bool_decide_eq_true. Qed.

Lemma bool_eqb_iff a b : Bool.eqb a b = true ↔ a = b.
Proof. apply Bool.eqb_true_iff. Qed.

Lemma taskdef_equals_iff a b : taskdef_equals a b = true ↔ a = b.
Proof.
  destruct a as [s1 d1 a1 e1], b as [s2 d2 a2 e2]. unfold taskdef_equals. simpl.
  rewrite !andb_true_iff, !str_slice_equals_iff, bool_eqb_iff, env_equals_iff.
  split.
  - intros [[[-> ->] ->] ->]. reflexivity.
  - intros [= -> -> -> ->]. auto.
Qed.

Lemma tasks_equals_iff a b : tasks_equals a b = true ↔ a = b.
Proof. apply map_equals_iff, taskdef_equals_iff. Qed.

Lemma opt_z_equals_iff a b : opt_z_equals a b = true ↔ a = b.
Proof.
  destruct a as [x|], b as [y|]; simpl; try (split; [discriminate|discriminate]); try tauto.
  rewrite Z.eqb_eq. split; [intros ->|intros [= ->]]; reflexivity.
Qed.

Lemma pdef_equals_iff a b : pdef_equals a b = true ↔ a = b.
Proof.
  destruct a as [c1 q1 s1 d1 f1 rp1 rc1 e1 t1 p1], b as [c2 q2 s2 d2 f2 rp2 rc2 e2 t2 p2].
  unfold pdef_equals. simpl.
  rewrite !andb_true_iff, !Z.eqb_eq, opt_z_equals_iff, bool_decide_eq_true, bool_eqb_iff,
    env_equals_iff, tasks_equals_iff, string_eqb_iff.
  split.
  - intros [[[[[[[[[-> ->] ->] ->] ->] ->] ->] ->] ->] ->]. reflexivity.
  - intros [= -> -> -> -> -> -> -> -> -> ->]. repeat split.
Qed.

Lemma pdefs_equals_iff (a b : pdefs) : pdefs_equals a b = true ↔ a = b.
Proof. apply map_equals_iff, pdef_equals_iff. Qed.

(** the unrepaired env comparison calls two different maps equal *)
Lemma env_equals_d8_refuted :
  ∃ a b : gmap string string, a ≠ b ∧ env_equals_d8 a b = true.
Proof.
  exists {[ "A" := "" ]}, {[ "B" := "" ]}. split.
  - intros Heq. apply (f_equal (lookup "A")) in Heq. vm_compute in Heq. discriminate.
  - vm_compute. reflexivity.
Qed.

(** ** Validation *)
Lemma validate_valid p : validate p = true → valid_pdef p.
Proof.
  unfold validate, valid_pdef. rewrite !andb_true_iff, negb_true_iff, andb_false_iff.
  intros [[[[Hc Hq] Hd] Hdq] Hdeps].
  apply Z.ltb_lt in Hc. apply Z.leb_le in Hd.
  split; [lia|]. split.
  { intros q Hqq. rewrite Hqq in Hq. by apply Z.leb_le in Hq. }
  split; [done|]. split.
  { intros Hpos Hq0. rewrite Hq0 in Hdq. destruct Hdq as [Hdq|Hdq].
    - apply Z.ltb_ge in Hdq. lia.
    - discriminate. }
  intros n t d Hn Hd'.
  unfold deps_ok in Hdeps. rewrite forallb_forall in Hdeps.
  specialize (Hdeps (n, t)). rewrite <- elem_of_list_In, elem_of_map_to_list in Hdeps.
  specialize (Hdeps Hn). simpl in Hdeps. rewrite forallb_forall in Hdeps.
  specialize (Hdeps d). rewrite <- elem_of_list_In in Hdeps. specialize (Hdeps Hd').
  by apply bool_decide_eq_true in Hdeps.
Qed.

Lemma valid_validate p : valid_pdef p → validate p = true.
Proof.
  unfold validate, valid_pdef. intros (Hc & Hq & Hd & Hdq & Hdeps).
  rewrite !andb_true_iff, negb_true_iff, andb_false_iff. repeat split.
  - apply Z.ltb_lt. lia.
  - destruct (queue_limit p) as [q|]; [|done]. apply Z.leb_le. by apply Hq.
  - by apply Z.leb_le.
  - destruct (Z.ltb_spec 0 (start_delay p)) as [Hpos|]; [right|by left].
    destruct (queue_limit p) as [q|] eqn:Hqq; [|done].
    apply Z.eqb_neq. intros ->. by apply Hdq.
  - unfold deps_ok. rewrite forallb_forall. intros [n t].
    rewrite <- elem_of_list_In, elem_of_map_to_list. intros Hn. simpl.
    rewrite forallb_forall. intros d. rewrite <- elem_of_list_In. intros Hd'.
    apply bool_decide_eq_true. eauto.
Qed.

(** ** Loader: characterisation *)

(** all decoded entries of all files, in order *)
Definition file_entries (f : file) : option (list (string * pdef)) := decode_file (fst f) (snd f).
Definition all_entries (fs : list file) : option (list (string * pdef)) :=
  ess ← mapM file_entries fs; Some (concat ess).

Definition entries_ok (es : list (string * pdef)) : Prop :=
  NoDup (es.*1) ∧ Forall (fun kv => validate kv.2 = true) es.

Lemma add_entries_spec acc es :
  match add_entries acc es with
  | Some r => (NoDup (es.*1) ∧ Forall (fun kv => validate kv.2 = true) es
               ∧ (∀ n, n ∈ es.*1 → acc !! n = None)) ∧ r = list_to_map es ∪ acc
  | None => ¬ (NoDup (es.*1) ∧ Forall (fun kv => validate kv.2 = true) es
               ∧ (∀ n, n ∈ es.*1 → acc !! n = None))
  end.
Proof.
  revert acc. induction es as [|[n p] es IH]; intros acc; simpl.
  - split; [repeat split; [constructor|constructor|set_solver]|].
    by rewrite (left_id_L ∅ (∪)).
  - destruct (acc !! n) as [x|] eqn:Hn.
    { intros (_ & _ & Hfresh). specialize (Hfresh n). rewrite Hn in Hfresh.
      discriminate Hfresh. set_solver. }
    destruct (validate p) eqn:Hv.
    2:{ intros (_ & Hall & _). inversion Hall as [|? ? Hp]; subst. simpl in Hp. congruence. }
    specialize (IH (<[n:=p]> acc)). destruct (add_entries (<[n:=p]> acc) es) as [r|].
    + destruct IH as [(Hnd & Hall & Hfresh) ->].
      assert (Hnin : n ∉ es.*1).
      { intros Hin. specialize (Hfresh n Hin). by rewrite lookup_insert in Hfresh. }
      split.
      * split; [by constructor|]. split; [by constructor|].
        intros m Hm. apply elem_of_cons in Hm as [->|Hm]; [done|].
        specialize (Hfresh m Hm). destruct (decide (m = n)) as [->|Hne]; [done|].
        by rewrite lookup_insert_ne in Hfresh.
      * rewrite insert_union_singleton_l.
        rewrite (assoc_L (∪)). rewrite insert_union_singleton_l.
        f_equal. apply map_union_comm. apply map_disjoint_singleton_r.
        by apply not_elem_of_list_to_map_1.
    + intros (Hnd & Hall & Hfresh). apply IH.
      apply NoDup_cons in Hnd as [Hnin Hnd]. inversion Hall; subst.
      split; [done|]. split; [done|].
      intros m Hm. destruct (decide (m = n)) as [->|Hne]; [done|].
      rewrite lookup_insert_ne by done. apply Hfresh. by right.
Qed.

Lemma load_from_spec acc fs :
  match load_from acc fs, all_entries fs with
  | Some r, Some es => (NoDup (es.*1) ∧ Forall (fun kv => validate kv.2 = true) es
                        ∧ (∀ n, n ∈ es.*1 → acc !! n = None)) ∧ r = list_to_map es ∪ acc
  | Some r, None => False
  | None, Some es => ¬ (NoDup (es.*1) ∧ Forall (fun kv => validate kv.2 = true) es
                        ∧ (∀ n, n ∈ es.*1 → acc !! n = None))
  | None, None => True
  end.
Proof.
  revert acc. induction fs as [|f fs IH]; intros acc.
  - simpl. split; [repeat split; [constructor|constructor|set_solver]|].
    by rewrite (left_id_L ∅ (∪)).
  - unfold all_entries in *. simpl. unfold load_file. change (file_entries f) with (decode_file f.1 f.2).
    destruct (decode_file f.1 f.2) as [es1|] eqn:Hd; simpl.
    2:{ done. }
    pose proof (add_entries_spec acc es1) as Ha.
    destruct (add_entries acc es1) as [acc'|].
    + destruct Ha as [(Hnd1 & Hall1 & Hfresh1) ->].
      specialize (IH (list_to_map es1 ∪ acc)).
      destruct (load_from (list_to_map es1 ∪ acc) fs) as [r|];
        destruct (mapM file_entries fs) as [ess|]; simpl in *; try done.
      * destruct IH as [(Hnd & Hall & Hfresh) ->]. split.
        -- rewrite fmap_app. split.
           { apply NoDup_app. split; [done|]. split; [|done].
             intros n Hn1 Hn2. specialize (Hfresh n Hn2).
             apply lookup_union_None in Hfresh as [Hf _].
             apply not_elem_of_list_to_map in Hf. done. }
           split; [by apply Forall_app|].
           intros n Hn. apply elem_of_app in Hn as [Hn|Hn]; [by apply Hfresh1|].
           specialize (Hfresh n Hn). by apply lookup_union_None in Hfresh as [_ ?].
        -- rewrite list_to_map_app. rewrite (assoc_L (∪)). f_equal.
           apply map_union_comm. apply map_disjoint_spec. intros n x y Hx Hy.
           apply elem_of_list_to_map_2 in Hx. apply elem_of_list_to_map_2 in Hy.
           assert (Hn2 : n ∈ (concat ess).*1) by (apply elem_of_list_fmap; by exists (n, x)).
           specialize (Hfresh n Hn2). apply lookup_union_None in Hfresh as [Hf _].
           apply not_elem_of_list_to_map in Hf. apply Hf.
           apply elem_of_list_fmap. by exists (n, y).
      * intros (Hnd & Hall & Hfresh). apply IH.
        rewrite fmap_app in *. apply NoDup_app in Hnd as (_ & Hdisj & Hnd2).
        apply Forall_app in Hall as [_ Hall2]. split; [done|]. split; [done|].
        intros n Hn. apply lookup_union_None. split.
        -- apply not_elem_of_list_to_map. intros Hn1. by apply (Hdisj n).
        -- apply Hfresh. apply elem_of_app. by right.
    + destruct (mapM file_entries fs) as [ess|]; simpl; [|done].
      intros (Hnd & Hall & Hfresh). apply Ha.
      rewrite fmap_app in *. apply NoDup_app in Hnd as (Hnd1 & _ & _).
      apply Forall_app in Hall as [Hall1 _]. split; [done|]. split; [done|].
      intros n Hn. apply Hfresh. apply elem_of_app. by left.
Qed.

(** [load] succeeds exactly when everything decodes, validates and names are unique; the result is then
    exactly the decoded content *)
Lemma load_spec fs :
  match load fs, all_entries fs with
  | Some r, Some es => entries_ok es ∧ r = list_to_map es
  | Some r, None => False
  | None, Some es => ¬ entries_ok es
  | None, None => True
  end.
Proof.
  unfold load, entries_ok. pose proof (load_from_spec ∅ fs) as H.
  destruct (load_from ∅ fs) as [r|]; destruct (all_entries fs) as [es|]; try done.
  - destruct H as [(Hnd & Hall & _) ->]. split; [done|]. by rewrite (right_id_L ∅ (∪)).
  - intros [Hnd Hall]. apply H. split; [done|]. split; [done|]. intros n _. apply lookup_empty.
Qed.

(** ** Consequences *)
Lemma load_valid fs d n p : load fs = Some d → d !! n = Some p → valid_pdef p.
Proof.
  intros Hl Hn. pose proof (load_spec fs) as H. rewrite Hl in H.
  destruct (all_entries fs) as [es|]; [|done]. destruct H as [[Hnd Hall] ->].
  apply elem_of_list_to_map_2 in Hn. rewrite Forall_forall in Hall.
  apply validate_valid. by apply (Hall (n, p)).
Qed.

Lemma load_unique_names fs d es : load fs = Some d → all_entries fs = Some es → NoDup (es.*1).
Proof.
  intros Hl He. pose proof (load_spec fs) as H. rewrite Hl, He in H. by destruct H as [[? ?] _].
Qed.

Lemma load_exact fs es :
  all_entries fs = Some es → NoDup (es.*1) → Forall (fun kv => valid_pdef kv.2) es →
  load fs = Some (list_to_map es).
Proof.
  intros He Hnd Hall. pose proof (load_spec fs) as H. rewrite He in H.
  destruct (load fs) as [r|].
  - by destruct H as [_ ->].
  - exfalso. apply H. split; [done|]. eapply Forall_impl; [exact Hall|].
    intros kv. apply valid_validate.
Qed.

(** permutations *)
Lemma mapM_perm {A B} (f : A → option B) l l' k :
  l ≡ₚ l' → mapM f l = Some k → ∃ k', mapM f l' = Some k' ∧ k ≡ₚ k'.
Proof.
  intros Hp. revert k. induction Hp as [|x l l' Hp IH|x y l|l l' l'' Hp1 IH1 Hp2 IH2]; intros k; simpl.
  - intros [= <-]. by exists [].
  - destruct (f x) as [b|]; simpl; [|done].
    destruct (mapM f l) as [k0|] eqn:Hk0; simpl; [|done]. intros [= <-].
    destruct (IH k0 eq_refl) as (k' & -> & Hk'). simpl. exists (b :: k'). split; [done|]. by constructor.
  - destruct (f y) as [b|]; simpl; [|done]. destruct (f x) as [a|]; simpl; [|done].
    destruct (mapM f l) as [k0|]; simpl; [|done]. intros [= <-].
    exists (a :: b :: k0). split; [done|]. apply perm_swap.
  - intros Hk. destruct (IH1 k Hk) as (k' & Hk' & Hp'). destruct (IH2 k' Hk') as (k'' & Hk'' & Hp'').
    exists k''. split; [done|]. by etrans.
Qed.

Lemma mapM_perm_None {A B} (f : A → option B) l l' :
  l ≡ₚ l' → mapM f l = None → mapM f l' = None.
Proof.
  intros Hp Hn. destruct (mapM f l') as [k'|] eqn:Hk'; [|done].
  symmetry in Hp. destruct (mapM_perm f l' l k' Hp Hk') as (k & Hk & _). congruence.
Qed.

Lemma concat_perm {A} (l l' : list (list A)) : l ≡ₚ l' → concat l ≡ₚ concat l'.
Proof.
  induction 1 as [|x l l' Hp IH|x y l|l l' l'' Hp1 IH1 Hp2 IH2]; simpl.
  - done.
  - by f_equiv.
  - rewrite !(assoc_L (++)). f_equiv. apply Permutation_app_comm.
  - by etrans.
Qed.

Lemma entries_ok_perm es es' : es ≡ₚ es' → entries_ok es → entries_ok es'.
Proof. intros Hp [Hnd Hall]. split; by rewrite <- Hp. Qed.

Lemma load_of_entries_perm fs fs' es es' :
  all_entries fs = Some es → all_entries fs' = Some es' → es ≡ₚ es' → load fs = load fs'.
Proof.
  intros He He' Hp. pose proof (load_spec fs) as H. pose proof (load_spec fs') as H'.
  rewrite He in H. rewrite He' in H'.
  destruct (load fs) as [r|], (load fs') as [r'|]; try done.
  - destruct H as [Hok ->], H' as [Hok' ->]. f_equal. apply list_to_map_proper; [|done].
    by destruct Hok.
  - destruct H as [Hok _]. exfalso. apply H'. by eapply entries_ok_perm.
  - destruct H' as [Hok' _]. exfalso. apply H. symmetry in Hp. by eapply entries_ok_perm.
Qed.

(** the order of the files does not matter *)
Lemma load_perm fs fs' : fs ≡ₚ fs' → load fs = load fs'.
Proof.
  intros Hp. destruct (all_entries fs) as [es|] eqn:He.
  - unfold all_entries in He. destruct (mapM file_entries fs) as [ess|] eqn:Hm; [|done].
    simpl in He. injection He as <-.
    destruct (mapM_perm _ _ _ _ Hp Hm) as (ess' & Hm' & Hpe).
    eapply load_of_entries_perm.
    + unfold all_entries. rewrite Hm. reflexivity.
    + unfold all_entries. rewrite Hm'. reflexivity.
    + by apply concat_perm.
  - assert (He' : all_entries fs' = None).
    { unfold all_entries in *. destruct (mapM file_entries fs) eqn:Hm; [done|].
      by rewrite (mapM_perm_None _ _ _ Hp Hm). }
    pose proof (load_spec fs) as H. pose proof (load_spec fs') as H'.
    rewrite He in H. rewrite He' in H'.
    destruct (load fs), (load fs'); done.
Qed.

Lemma mapM_app' {A B} (f : A → option B) l1 l2 :
  mapM f (l1 ++ l2) = a ← mapM f l1; b ← mapM f l2; Some (a ++ b).
Proof.
  induction l1 as [|x l1 IH]; simpl.
  - destruct (mapM f l2); done.
  - destruct (f x); simpl; [|done]. rewrite IH.
    destruct (mapM f l1); simpl; [|done]. destruct (mapM f l2); done.
Qed.

(** the order in which the pipelines of one file are processed (Go: map iteration) does not matter *)
Lemma decode_file_perm path es es' k :
  es ≡ₚ es' → decode_file path es = Some k → ∃ k', decode_file path es' = Some k' ∧ k ≡ₚ k'.
Proof. apply mapM_perm. Qed.

Lemma load_entry_order_irrelevant fs1 fs2 path es es' :
  es ≡ₚ es' → load (fs1 ++ (path, es) :: fs2) = load (fs1 ++ (path, es') :: fs2).
Proof.
  intros Hp.
  assert (Hae : ∀ e, all_entries (fs1 ++ (path, e) :: fs2)
    = a ← mapM file_entries fs1; b ← decode_file path e; c ← mapM file_entries fs2; Some (concat a ++ b ++ concat c)).
  { intros e. unfold all_entries. rewrite mapM_app'. simpl. change (file_entries (path, e)) with (decode_file path e).
    destruct (mapM file_entries fs1) as [a|]; simpl; [|done].
    destruct (decode_file path e) as [b|]; simpl; [|done].
    destruct (mapM file_entries fs2) as [c|]; simpl; [|done].
    by rewrite concat_app. }
  destruct (all_entries (fs1 ++ (path, es) :: fs2)) as [E|] eqn:He.
  - pose proof He as He0. rewrite Hae in He0.
    destruct (mapM file_entries fs1) as [a|] eqn:Ha; simpl in He0; [|done].
    destruct (decode_file path es) as [b|] eqn:Hb; simpl in He0; [|done].
    destruct (mapM file_entries fs2) as [c|] eqn:Hc; simpl in He0; [|done].
    injection He0 as <-.
    destruct (decode_file_perm _ _ _ _ Hp Hb) as (b' & Hb' & Hpb).
    eapply load_of_entries_perm; [exact He| |].
    + rewrite Hae. simpl. rewrite Hb'. reflexivity.
    + by rewrite Hpb.
  - assert (He' : all_entries (fs1 ++ (path, es') :: fs2) = None).
    { rewrite Hae in *. destruct (mapM file_entries fs1) as [a|]; simpl in *; [|done].
      destruct (decode_file path es) as [b|] eqn:Hb; simpl in *.
      - destruct (decode_file_perm _ _ _ _ Hp Hb) as (b' & -> & _). simpl.
        destruct (mapM file_entries fs2); simpl in *; done.
      - unfold decode_file in *. by rewrite (mapM_perm_None _ _ _ Hp Hb). }
    pose proof (load_spec (fs1 ++ (path, es) :: fs2)) as H.
    pose proof (load_spec (fs1 ++ (path, es') :: fs2)) as H'.
    rewrite He in H. rewrite He' in H'.
    destruct (load (fs1 ++ (path, es) :: fs2)), (load (fs1 ++ (path, es') :: fs2)); done.
Qed.

(** * Env: how environment variables and job variables reach a task command.
    taskctl/runner.go Run (container merges), taskctl/executor.go Execute (process environment ++ job environment,
    handed to the interpreter as a list in which the last entry for a name wins), prunner.go buildPipelineGraph
    (task variables: the job's variables plus the reserved job identity). *)
From stdpp Require Import gmap strings.

Notation vmap := (gmap string string).

(** variables.Container.Merge: the argument's entries override the receiver's *)
Definition merge (a b : vmap) : vmap := b ∪ a.
(** variables.Container.With *)
Definition with_ (a : vmap) (k v : string) : vmap := <[k := v]> a.

(** Run: env := r.env.Merge(execContext.Env); env = env.With("TASK_NAME", t.Name); env = env.Merge(t.Env)
    where r.env is the pipeline's env (app.go: WithEnv(FromMap(j.Env))) and the default context's env is empty *)
Definition job_env (pipe_env ctx_env : vmap) (task_name : string) (task_env : vmap) : vmap :=
  merge (with_ (merge pipe_env ctx_env) "TASK_NAME" task_name) task_env.

(** the list handed to the interpreter: os.Environ() followed by the job environment in the container's (arbitrary)
    order; expand.ListEnviron drops entries with an empty name and lets the last entry for a name win *)
Definition entry_ok (e : string * string) : bool := negb (bool_decide (e.1 = "")).

Fixpoint lookup_last (name : string) (l : list (string * string)) : option string :=
  match l with
  | [] => None
  | (k, v) :: l' => match lookup_last name l' with Some v' => Some v' | None => if bool_decide (k = name) then Some v else None end
  end.

Definition sees (name : string) (proc : list (string * string)) (job : list (string * string)) : option string :=
  lookup_last name (List.filter entry_ok (proc ++ job)).

(** the executable instance used by the correspondence check (one particular order of the job environment) *)
Definition sees_run (name : string) (proc : list (string * string)) (pipe_env task_env : vmap) (task_name : string) : option string :=
  sees name proc (map_to_list (job_env pipe_env ∅ task_name task_env)).

(** ** job variables *)
Definition reserved : string := "__jobID".

(** buildPipelineGraph: the task variables of a job are its own variables plus its identity; a job that brings the
    reserved name gets no graph (and therefore never runs) *)
Definition task_vars {V} (id_val : V) (vars : gmap string V) : option (gmap string V) :=
  if bool_decide (reserved ∈ dom vars) then None else Some (<[reserved := id_val]> vars).

(** several jobs: what (job, task) gets is computed from that job's own snapshot only *)
Record jobdata := JobData { jd_id : string; jd_pipe_env : vmap; jd_task_env : gmap string vmap; jd_vars : vmap }.

Definition env_of (jobs : gmap nat jobdata) (proc : list (string * string)) (j : nat) (task name : string) : option string :=
  match jobs !! j with
  | Some d => sees_run name proc (jd_pipe_env d) (default ∅ (jd_task_env d !! task)) task
  | None => None
  end.

Definition vars_of (jobs : gmap nat jobdata) (j : nat) : option vmap :=
  match jobs !! j with Some d => task_vars (jd_id d) (jd_vars d) | None => None end.

// sysrun: controlled-mode correspondence driver for the runner state machine (properties C01-C08, C10-C12, C15, C16).
//
// Drives the real prunner.PipelineRunner through generated event histories under full schedule control (package control)
// and records, after every event, what the API and the controlled task runner observe. The same histories are replayed
// through the Coq model's step function by tools/ (cases_*.v + vm_compute).
//
// usage: sysrun -seed N -n HISTORIES -profile NAME -out FILE [-replay FILE -hid K]
package main

import (
	"context"
	"encoding/json"
	"errors"
	"flag"
	"fmt"
	"os"
	"sort"
	"strings"
	"time"

	"github.com/apex/log"
	"github.com/apex/log/handlers/discard"
	"github.com/gofrs/uuid"

	"github.com/Flowpack/prunner"
	"github.com/Flowpack/prunner/definition"
	"github.com/Flowpack/prunner/test"

	"verifharness/control"
	"verifharness/hutil"
)

// ---------- configuration ----------

type TaskCfg struct {
	Name   int   `json:"name"`
	Deps   []int `json:"deps"`
	Allow  bool  `json:"allow"`
	Empty  bool  `json:"empty"`
	Script int   `json:"script"`
	Env    int   `json:"env"`
}

type PipeCfg struct {
	Name     int       `json:"name"`
	Conc     int       `json:"conc"`
	QLimit   *int      `json:"qlimit"`
	Replace  bool      `json:"replace"`
	Delay    int       `json:"delay"`
	Continue bool      `json:"continue"`
	RetP     int       `json:"retp"`
	RetC     int       `json:"retc"`
	Env      int       `json:"env"`
	Tasks    []TaskCfg `json:"tasks"`
}

type DefSet struct {
	Pipes []PipeCfg `json:"pipes"`
}

func pname(i int) string { return fmt.Sprintf("p%02d", i) }
func tname(i int) string { return fmt.Sprintf("t%02d", i) }
func num(s string) int {
	n := 0
	fmt.Sscanf(s[1:], "%d", &n)
	return n
}

// one tick of the logical clock; real timers are armed with hours and never fire during a run
const tick = time.Hour

func (d DefSet) toDefs() *definition.PipelinesDef {
	out := &definition.PipelinesDef{Pipelines: map[string]definition.PipelineDef{}}
	for _, p := range d.Pipes {
		pd := definition.PipelineDef{Concurrency: p.Conc, QueueLimit: p.QLimit, StartDelay: time.Duration(p.Delay) * tick,
			ContinueRunningTasksAfterFailure: p.Continue, RetentionPeriod: time.Duration(p.RetP) * tick, RetentionCount: p.RetC,
			Env: map[string]string{"E": fmt.Sprint(p.Env)}, Tasks: map[string]definition.TaskDef{}, SourcePath: "gen"}
		if p.Replace {
			pd.QueueStrategy = definition.QueueStrategyReplace
		}
		for _, t := range p.Tasks {
			td := definition.TaskDef{AllowFailure: t.Allow, Env: map[string]string{"E": fmt.Sprint(t.Env)}}
			if !t.Empty {
				td.Script = []string{fmt.Sprintf("s%d", t.Script)}
			}
			for _, d := range t.Deps {
				td.DependsOn = append(td.DependsOn, tname(d))
			}
			pd.Tasks[tname(t.Name)] = td
		}
		out.Pipelines[pname(p.Name)] = pd
	}
	return out
}

func genTasks(rng *hutil.Rng, prof string) []TaskCfg {
	var nt int
	switch prof {
	case "graph", "fail", "cancel":
		nt = 1 + rng.Pick([]int{2, 4, 5, 4, 2})
	default:
		nt = rng.Pick([]int{1, 8, 4, 2})
	}
	ts := make([]TaskCfg, nt)
	// task numbers are a random injection into 0..7 so that name order and dependency order are unrelated
	perm := []int{0, 1, 2, 3, 4, 5, 6, 7}
	for i := len(perm) - 1; i > 0; i-- {
		j := rng.Intn(i + 1)
		perm[i], perm[j] = perm[j], perm[i]
	}
	for i := range ts {
		ts[i] = TaskCfg{Name: perm[i], Allow: rng.Chance(1, 5), Empty: rng.Chance(1, 10), Script: rng.Intn(4), Env: rng.Intn(3), Deps: []int{}}
		for k := 0; k < i; k++ {
			if rng.Chance(2, 5) {
				ts[i].Deps = append(ts[i].Deps, ts[k].Name)
			}
		}
		if len(ts[i].Deps) > 0 && rng.Chance(1, 10) {
			ts[i].Deps = append(ts[i].Deps, ts[i].Deps[0]) // duplicate depends_on entry
		}
	}
	// cycles: self-loop, back edge
	if nt > 0 && rng.Chance(1, 12) {
		if rng.Chance(1, 3) {
			i := rng.Intn(nt)
			ts[i].Deps = append(ts[i].Deps, ts[i].Name)
		} else if nt >= 2 {
			i := rng.Intn(nt - 1)
			k := i + 1 + rng.Intn(nt-i-1)
			ts[i].Deps = append(ts[i].Deps, ts[k].Name)
		}
	}
	sort.Slice(ts, func(a, b int) bool { return ts[a].Name < ts[b].Name })
	return ts
}

func genPipe(rng *hutil.Rng, name int, prof string) PipeCfg {
	p := PipeCfg{Name: name, Conc: 1 + rng.Pick([]int{5, 3, 2}), Env: rng.Intn(3)}
	switch rng.Intn(5) {
	case 0:
		v := 0
		p.QLimit = &v
	case 1, 2:
		v := 1 + rng.Intn(3)
		p.QLimit = &v
	}
	p.Replace = rng.Chance(1, 3)
	delayNum := 1
	if prof == "delay" {
		delayNum = 3
	}
	if rng.Chance(delayNum, 5) && !(p.QLimit != nil && *p.QLimit == 0) {
		p.Delay = 1 + rng.Intn(4)
	}
	p.Continue = rng.Chance(1, 3)
	p.Tasks = genTasks(rng, prof)
	return p
}

func genDefSets(rng *hutil.Rng, prof string) []DefSet {
	np := 1 + rng.Pick([]int{5, 3, 1})
	base := DefSet{}
	for i := 0; i < np; i++ {
		base.Pipes = append(base.Pipes, genPipe(rng, i, prof))
	}
	sets := []DefSet{base}
	// variants for reloads
	for v := 0; v < 3; v++ {
		alt := DefSet{}
		for _, p := range base.Pipes {
			q := p
			q.Tasks = append([]TaskCfg(nil), p.Tasks...)
			switch rng.Intn(7) {
			case 0:
				q.Conc = 1 + rng.Intn(3)
			case 1:
				if q.QLimit == nil || *q.QLimit != 0 {
					q.Delay = []int{0, 2, 3}[rng.Intn(3)]
				}
			case 2:
				q.Tasks = genTasks(rng, prof)
			case 3:
				q.Continue = !q.Continue
				q.Env = 7
			case 4:
				q.Replace = !q.Replace
				v := 1 + rng.Intn(2)
				q.QLimit = &v
			case 5:
				if len(base.Pipes) > 1 && rng.Chance(1, 2) {
					continue // pipeline removed
				}
			}
			alt.Pipes = append(alt.Pipes, q)
		}
		sets = append(sets, alt)
	}
	return sets
}

// ---------- events ----------

type Ev struct {
	T    string `json:"t"`
	P    int    `json:"p,omitempty"`
	V    string `json:"v,omitempty"`
	VN   int    `json:"vn,omitempty"`
	U    int    `json:"u,omitempty"`
	ID   int    `json:"id"`
	N    int    `json:"n,omitempty"`
	D    int    `json:"d,omitempty"`
	DS   int    `json:"ds,omitempty"`
	O    string `json:"o,omitempty"`
	Code int    `json:"code,omitempty"`
}

type TaskSnap struct {
	Name     int    `json:"name"`
	Status   string `json:"status"`
	Start    bool   `json:"start"`
	End      bool   `json:"end"`
	Skipped  bool   `json:"skipped"`
	Exit     int    `json:"exit"`
	Errored  bool   `json:"errored"`
	Err      string `json:"err"`
	Canceled bool   `json:"canceled"`
	Deps     []int  `json:"deps"`
	Allow    bool   `json:"allow"`
	Empty    bool   `json:"empty"`
	Script   int    `json:"script"`
	TEnv     int    `json:"tenv"`
}

type SchedSnap struct {
	Phase   string `json:"phase"`
	Todo    []int  `json:"todo"`
	Entry   []int  `json:"entry"`
	Running []int  `json:"running"`
}

type JobSnap struct {
	ID        int        `json:"id"`
	Pipe      int        `json:"pipe"`
	Start     bool       `json:"start"`
	End       bool       `json:"end"`
	Completed bool       `json:"completed"`
	Canceled  bool       `json:"canceled"`
	LastErr   string     `json:"lasterr"`
	Timer     bool       `json:"timer"`
	Delay     int        `json:"delay"`
	Env       int        `json:"env"`
	Vars      string     `json:"vars"`
	VN        int        `json:"vn"`
	User      int        `json:"user"`
	Tasks     []TaskSnap `json:"tasks"`
	Sched     *SchedSnap `json:"sched"`
	Cancels   int        `json:"cancels"`
	Ctx       bool       `json:"ctx"`
	// real-time order facts (monitor only): created<=start<=end, task start<=end
	TimeOrderOK bool `json:"time_ok"`
}

type PipeSnap struct {
	P           int  `json:"p"`
	Schedulable bool `json:"schedulable"`
	Running     bool `json:"running"`
}

type Snap struct {
	Jobs  []JobSnap        `json:"jobs"`
	Wait  map[string][]int `json:"wait"`
	Pipes []PipeSnap       `json:"pipes"`
	Req   bool             `json:"req"`
}

type Step struct {
	Kind string `json:"kind"`
	Ev   Ev     `json:"ev"`
	Res  string `json:"res"`
	Snap Snap   `json:"snap"`
}

// ---------- one history ----------

type hist struct {
	h         *control.H
	r         *prunner.PipelineRunner
	rng       *hutil.Rng
	sets      []DefSet
	cur       int
	clock     int
	created   map[int]int  // job idx -> logical time of acceptance
	delay     map[int]int  // job idx -> delay in ticks
	armed     map[int]bool // timer created and neither fired nor seen stopped
	alive     map[int]bool // scheduler goroutine seen and not yet returned
	pipesSeen map[int]bool
	out       *os.File
	prof      string
	steps     int
	failure   string
}

func errKind(err error) string {
	if err == nil {
		return "none"
	}
	if errors.Is(err, context.Canceled) || err.Error() == context.Canceled.Error() {
		return "canceled"
	}
	s := err.Error()
	if strings.Contains(s, "building execution graph") || strings.Contains(s, "reserved for internal use") {
		return "graph"
	}
	return "fail"
}

func (x *hist) snapshot() Snap {
	s := Snap{Wait: map[string][]int{}, Jobs: []JobSnap{}, Pipes: []PipeSnap{}}
	parked := x.h.ParkedList()
	for _, p := range parked {
		if p.Kind == control.KTop || p.Kind == control.KVisit || p.Kind == control.KReturn {
			x.alive[p.Job.Idx] = true
		}
	}
	x.r.IterateJobs(func(j *prunner.PipelineJob) {
		jh := x.h.ByUUID[j.ID.String()]
		if jh == nil {
			x.failure = "job unknown to the harness: " + j.ID.String()
			return
		}
		js := JobSnap{ID: jh.Idx, Pipe: num(j.Pipeline), Start: j.Start != nil, End: j.End != nil, Completed: j.Completed, Canceled: j.Canceled,
			LastErr: errKind(j.LastError), Timer: j.VerifHasTimer() && !j.Canceled, Delay: int(j.StartDelay / tick), User: num("u" + strings.TrimPrefix(j.User, "u")),
			Tasks: []TaskSnap{}, TimeOrderOK: true}
		if e, ok := j.Env["E"]; ok {
			fmt.Sscanf(e, "%d", &js.Env)
		}
		switch {
		case j.Variables == nil:
			js.Vars = "none"
		default:
			if _, ok := j.Variables["__jobID"]; ok {
				js.Vars = "reserved"
			} else {
				js.Vars = "plain"
				if v, ok := j.Variables["v"].(int); ok {
					js.VN = v
				}
			}
		}
		if j.Start != nil && j.Start.Before(j.Created) {
			js.TimeOrderOK = false
		}
		if j.End != nil && (j.Start == nil || j.End.Before(*j.Start)) {
			js.TimeOrderOK = false
		}
		for _, t := range j.Tasks {
			ts := TaskSnap{Name: num(t.Name), Status: t.Status, Start: t.Start != nil, End: t.End != nil, Skipped: t.Skipped, Exit: int(t.ExitCode),
				Errored: t.Errored, Err: errKind(t.Error), Canceled: t.Canceled, Allow: t.AllowFailure, Empty: len(t.Script) == 0, Deps: []int{}}
			for _, d := range t.DependsOn {
				ts.Deps = append(ts.Deps, num(d))
			}
			if len(t.Script) > 0 {
				fmt.Sscanf(t.Script[0], "s%d", &ts.Script)
			}
			if e, ok := t.Env["E"]; ok {
				fmt.Sscanf(e, "%d", &ts.TEnv)
			}
			if t.Start != nil && t.End != nil && t.End.Before(*t.Start) {
				js.TimeOrderOK = false
			}
			js.Tasks = append(js.Tasks, ts)
		}
		if jh.Runner != nil {
			js.Ctx = jh.Runner.CtxCanceled()
		}
		sc := &SchedSnap{Phase: "", Todo: []int{}, Entry: []int{}, Running: []int{}}
		for _, p := range parked {
			if p.Job != jh {
				continue
			}
			switch p.Kind {
			case control.KTop:
				sc.Phase = "top"
			case control.KVisit:
				sc.Phase = "scan"
			case control.KReturn:
				sc.Phase = "exited"
			case control.KRunEntry:
				sc.Entry = append(sc.Entry, num(p.Stage))
			case control.KRunBody:
				sc.Running = append(sc.Running, num(p.Stage))
			case control.KCancel:
				js.Cancels++
			}
		}
		if x.alive[jh.Idx] {
			if sc.Phase == "" {
				sc.Phase = "exited" // waiting for its stage goroutines
			}
			if sc.Phase == "scan" {
				for t := range jh.Todo {
					sc.Todo = append(sc.Todo, num(t))
				}
				sort.Ints(sc.Todo)
			}
			sort.Ints(sc.Entry)
			sort.Ints(sc.Running)
			js.Sched = sc
		}
		s.Jobs = append(s.Jobs, js)
	})
	sort.Slice(s.Jobs, func(a, b int) bool { return s.Jobs[a].ID < s.Jobs[b].ID })
	for p := range x.pipesSeen {
		ids := []int{}
		for _, u := range x.r.VerifWaitListIDs(pname(p)) {
			if jh := x.h.ByUUID[u]; jh != nil {
				ids = append(ids, jh.Idx)
			} else {
				ids = append(ids, -1)
			}
		}
		s.Wait[fmt.Sprint(p)] = ids
	}
	for _, pi := range x.r.ListPipelines() {
		s.Pipes = append(s.Pipes, PipeSnap{P: num(pi.Pipeline), Schedulable: pi.Schedulable, Running: pi.Running})
	}
	s.Req = x.r.VerifTakePersistRequest()
	return s
}

func (x *hist) quiesce() bool {
	if err := x.h.Quiesce(5*time.Second, "PipelineRunner).Shutdown("); err != nil {
		x.failure = err.Error()
		return false
	}
	return true
}

type cand struct {
	ev     Ev
	weight int
	parked *control.Parked
}

func (x *hist) weights() map[string]int {
	w := map[string]int{"schedule": 10, "cancel": 3, "tick": 3, "fire": 6, "reload": 1, "iter": 8, "visit": 10, "runbegin": 8, "runend": 6,
		"deliver": 6, "return": 8, "badcancel": 1, "badschedule": 1}
	switch x.prof {
	case "admit":
		w["schedule"], w["cancel"], w["runend"] = 16, 5, 4
	case "cancel":
		w["cancel"], w["deliver"] = 8, 5
	case "delay":
		w["tick"], w["fire"], w["schedule"] = 6, 8, 12
	case "reload":
		w["reload"] = 5
	case "graph", "fail":
		w["schedule"], w["runend"], w["cancel"] = 5, 9, 1
	case "fifo":
		w["schedule"], w["cancel"], w["reload"] = 14, 4, 0
	}
	return w
}

func (x *hist) candidates(drain bool) []cand {
	w := x.weights()
	var cs []cand
	parked := x.h.ParkedList()
	for _, p := range parked {
		id := p.Job.Idx
		switch p.Kind {
		case control.KTop:
			cs = append(cs, cand{Ev{T: "iter", ID: id}, w["iter"], p})
		case control.KVisit:
			cs = append(cs, cand{Ev{T: "visit", ID: id, N: num(p.Stage)}, w["visit"], p})
		case control.KRunEntry:
			cs = append(cs, cand{Ev{T: "runbegin", ID: id, N: num(p.Stage)}, w["runbegin"], p})
		case control.KRunBody:
			okW, failW, ctxW := 6, 2, 0
			if x.prof == "fail" || x.prof == "graph" {
				failW = 5
			}
			if p.Job.Runner != nil && p.Job.Runner.CtxCanceled() {
				ctxW = 10
			}
			if drain {
				// a task that was told to stop ends (mostly by being killed), others succeed
				failW = 0
			}
			k := x.rng.Pick([]int{okW, failW, ctxW})
			ev := Ev{T: "runend", ID: id, N: num(p.Stage), O: []string{"ok", "fail", "ctx"}[k]}
			if k == 1 {
				ev.Code = 1 + x.rng.Intn(3)
			}
			cs = append(cs, cand{ev, w["runend"], p})
		case control.KCancel:
			cs = append(cs, cand{Ev{T: "deliver", ID: id}, w["deliver"], p})
		case control.KReturn:
			cs = append(cs, cand{Ev{T: "return", ID: id}, w["return"], p})
		}
	}
	// timers
	anyArmed := false
	for id, a := range x.armed {
		if !a {
			continue
		}
		anyArmed = true
		if x.created[id]+x.delay[id] <= x.clock {
			cs = append(cs, cand{Ev{T: "fire", ID: id}, w["fire"], nil})
		}
	}
	if drain {
		if len(cs) == 0 && anyArmed {
			cs = append(cs, cand{Ev{T: "tick", D: 1 + x.rng.Intn(3)}, 1, nil})
		}
		return cs
	}
	// API operations
	ds := x.sets[x.cur]
	for _, p := range ds.Pipes {
		ev := Ev{T: "schedule", P: p.Name, V: []string{"none", "none", "plain", "plain", "plain", "reserved"}[x.rng.Intn(6)], VN: x.rng.Intn(5), U: x.rng.Intn(3)}
		if x.rng.Chance(1, 25) {
			ev.V = "reserved"
		}
		cs = append(cs, cand{ev, w["schedule"] / len(ds.Pipes), nil})
	}
	cs = append(cs, cand{Ev{T: "schedule", P: 99, V: "none"}, w["badschedule"], nil})
	n := len(x.h.Jobs)
	if n > 0 {
		cs = append(cs, cand{Ev{T: "cancel", ID: x.rng.Intn(n)}, w["cancel"], nil})
		// prefer jobs that are not finished yet
		var open []int
		x.r.IterateJobs(func(j *prunner.PipelineJob) {
			if !j.Completed && !j.Canceled {
				if jh := x.h.ByUUID[j.ID.String()]; jh != nil {
					open = append(open, jh.Idx)
				}
			}
		})
		sort.Ints(open)
		if len(open) > 0 {
			cs = append(cs, cand{Ev{T: "cancel", ID: open[x.rng.Intn(len(open))]}, 2 * w["cancel"], nil})
		}
	}
	cs = append(cs, cand{Ev{T: "cancel", ID: n + 5}, w["badcancel"], nil})
	cs = append(cs, cand{Ev{T: "tick", D: 1 + x.rng.Intn(3)}, w["tick"], nil})
	if len(x.sets) > 1 {
		cs = append(cs, cand{Ev{T: "reload", DS: x.rng.Intn(len(x.sets))}, w["reload"], nil})
	}
	return cs
}

func (x *hist) apply(c cand) string {
	ev := c.ev
	switch ev.T {
	case "schedule":
		opts := prunner.ScheduleOpts{User: fmt.Sprintf("u%d", ev.U)}
		switch ev.V {
		case "plain":
			opts.Variables = map[string]interface{}{"v": ev.VN}
		case "reserved":
			opts.Variables = map[string]interface{}{"__jobID": "x", "v": ev.VN}
		}
		x.pipesSeen[ev.P] = true
		j, err := x.r.ScheduleAsync(pname(ev.P), opts)
		if err != nil {
			switch {
			case errors.Is(err, prunner.ErrShuttingDown):
				return "err:shutdown"
			case strings.Contains(err.Error(), "is not defined"):
				return "err:undefined"
			case strings.Contains(err.Error(), "queueing disabled"):
				return "err:noqueue"
			case strings.Contains(err.Error(), "queue limit reached"):
				return "err:queuefull"
			}
			return "err:other:" + err.Error()
		}
		jh := x.h.Accepted(j.ID.String(), j.Pipeline)
		x.created[jh.Idx] = x.clock
		x.delay[jh.Idx] = int(j.StartDelay / tick)
		if j.StartDelay > 0 {
			x.armed[jh.Idx] = true
		}
		return fmt.Sprintf("job:%d", jh.Idx)
	case "cancel":
		var id uuid.UUID
		if ev.ID < len(x.h.Jobs) {
			id = uuid.FromStringOrNil(x.h.Jobs[ev.ID].UUID)
		} else {
			id, _ = uuid.NewV4()
		}
		err := x.r.CancelJob(id)
		switch {
		case err == nil:
			return "ok"
		case errors.Is(err, prunner.ErrJobNotFound):
			return "err:notfound"
		case strings.Contains(err.Error(), "already completed"):
			return "err:completed"
		}
		return "err:other:" + err.Error()
	case "tick":
		x.clock += ev.D
	case "fire":
		x.armed[ev.ID] = false
		x.r.StartDelayedJob(uuid.FromStringOrNil(x.h.Jobs[ev.ID].UUID))
	case "reload":
		x.cur = ev.DS
		x.r.ReplaceDefinitions(x.sets[ev.DS].toDefs())
		for _, p := range x.sets[ev.DS].Pipes {
			x.pipesSeen[p.Name] = true
		}
	case "iter":
		jh := c.parked.Job
		jh.Todo = map[string]bool{}
		x.h.Release(c.parked, control.Outcome{})
	case "visit":
		jh := c.parked.Job
		delete(jh.Todo, c.parked.Stage)
		x.h.Release(c.parked, control.Outcome{})
	case "runbegin", "deliver":
		x.h.Release(c.parked, control.Outcome{})
	case "return":
		x.alive[c.parked.Job.Idx] = false
		x.h.Release(c.parked, control.Outcome{})
	case "runend":
		o := control.Outcome{}
		switch ev.O {
		case "fail":
			o = control.Outcome{Kind: control.OutFail, Code: int16(ev.Code)}
		case "ctx":
			o = control.Outcome{Kind: control.OutCtx}
		}
		x.h.Release(c.parked, o)
	}
	return "none"
}

// after an iteration began the harness learns the stage set from the job's task list
func (x *hist) fillTodo(c cand) {
	if c.ev.T != "iter" {
		return
	}
	jh := c.parked.Job
	if jh.Runner != nil && jh.Sched != nil {
		// cancelled => the loop is left, no scan
	}
	id := uuid.FromStringOrNil(jh.UUID)
	_ = x.r.ReadJob(id, func(j *prunner.PipelineJob) {
		for _, t := range j.Tasks {
			jh.Todo[t.Name] = true
		}
	})
}

func (x *hist) run(maxSteps int) {
	for phase := 0; phase < 2; phase++ {
		drain := phase == 1
		limit := maxSteps
		if drain {
			limit = 400
		}
		for i := 0; i < limit; i++ {
			cs := x.candidates(drain)
			if len(cs) == 0 {
				break
			}
			ws := make([]int, len(cs))
			for k, c := range cs {
				ws[k] = c.weight
				if ws[k] <= 0 && drain {
					ws[k] = 1
				}
			}
			k := x.rng.Pick(ws)
			if k < 0 {
				break
			}
			c := cs[k]
			// timers stopped by the runner (replace, cancel) are not fireable any more
			if c.ev.T == "fire" {
				stopped := false
				_ = x.r.ReadJob(uuid.FromStringOrNil(x.h.Jobs[c.ev.ID].UUID), func(j *prunner.PipelineJob) { stopped = !j.VerifHasTimer() })
				if stopped {
					x.armed[c.ev.ID] = false
					continue
				}
			}
			res := x.apply(c)
			if !x.quiesce() {
				return
			}
			x.fillTodo(c)
			st := Step{Kind: "step", Ev: c.ev, Res: res, Snap: x.snapshot()}
			hutil.JSONLine(x.out, st)
			x.steps++
			if x.failure != "" {
				return
			}
		}
	}
}

// findCand maps a recorded event to an enabled candidate of the current state (nil: not enabled, the event is skipped)
func (x *hist) findCand(ev Ev) *cand {
	kinds := map[string]control.Kind{"iter": control.KTop, "visit": control.KVisit, "runbegin": control.KRunEntry, "runend": control.KRunBody,
		"deliver": control.KCancel, "return": control.KReturn}
	switch ev.T {
	case "schedule", "cancel", "tick":
		return &cand{ev: ev}
	case "reload":
		if ev.DS < len(x.sets) {
			return &cand{ev: ev}
		}
		return nil
	case "fire":
		if ev.ID < len(x.h.Jobs) && x.armed[ev.ID] && x.created[ev.ID]+x.delay[ev.ID] <= x.clock {
			return &cand{ev: ev}
		}
		return nil
	}
	k, ok := kinds[ev.T]
	if !ok {
		return nil
	}
	for _, p := range x.h.ParkedList() {
		if p.Kind != k || p.Job.Idx != ev.ID {
			continue
		}
		if (k == control.KVisit || k == control.KRunEntry || k == control.KRunBody) && num(p.Stage) != ev.N {
			continue
		}
		if ev.T == "runend" && ev.O == "ctx" && (p.Job.Runner == nil || !p.Job.Runner.CtxCanceled()) {
			return nil
		}
		return &cand{ev: ev, parked: p}
	}
	return nil
}

func (x *hist) replay(events []Ev) {
	for _, ev := range events {
		c := x.findCand(ev)
		if c == nil {
			continue
		}
		if c.ev.T == "fire" {
			stopped := false
			_ = x.r.ReadJob(uuid.FromStringOrNil(x.h.Jobs[c.ev.ID].UUID), func(j *prunner.PipelineJob) { stopped = !j.VerifHasTimer() })
			if stopped {
				x.armed[c.ev.ID] = false
				continue
			}
		}
		res := x.apply(*c)
		if !x.quiesce() {
			return
		}
		x.fillTodo(*c)
		hutil.JSONLine(x.out, Step{Kind: "step", Ev: c.ev, Res: res, Snap: x.snapshot()})
		x.steps++
		if x.failure != "" {
			return
		}
	}
}

type replayFile struct {
	Sets   []DefSet `json:"sets"`
	Events []Ev     `json:"events"`
}

func runHistory(out *os.File, hid int, seed uint64, prof string, maxSteps int, rp *replayFile) (string, int) {
	rng := hutil.NewRng(seed)
	sets := genDefSets(rng, prof)
	if rp != nil {
		sets = rp.Sets
	}
	h := control.New()
	defer h.Close()
	ctx, cancel := context.WithCancel(context.Background())
	cancel() // no persist loop: saves are explicit events
	r, err := prunner.NewPipelineRunner(ctx, sets[0].toDefs(), h.CreateTaskRunner, nil, test.NewMockOutputStore())
	if err != nil {
		return err.Error(), 0
	}
	x := &hist{h: h, r: r, rng: rng, sets: sets, created: map[int]int{}, delay: map[int]int{}, armed: map[int]bool{}, alive: map[int]bool{},
		pipesSeen: map[int]bool{}, out: out, prof: prof}
	for _, p := range sets[0].Pipes {
		x.pipesSeen[p.Name] = true
	}
	hutil.JSONLine(out, map[string]interface{}{"kind": "begin", "hid": hid, "seed": seed, "profile": prof, "sets": sets})
	if rp != nil {
		x.replay(rp.Events)
	} else {
		x.run(maxSteps)
	}
	// let everything that is still parked end, so that no goroutine leaks into the next history
	for k := 0; k < 2000; k++ {
		ps := h.ParkedList()
		if len(ps) == 0 {
			break
		}
		h.Release(ps[0], control.Outcome{})
		_ = h.Quiesce(2 * time.Second)
	}
	hutil.JSONLine(out, map[string]interface{}{"kind": "end", "hid": hid, "steps": x.steps, "failure": x.failure})
	return x.failure, x.steps
}

func main() {
	seed := flag.Uint64("seed", 1, "seed")
	n := flag.Int("n", 10, "histories")
	prof := flag.String("profile", "mixed", "generator profile")
	outp := flag.String("out", "", "output file")
	maxSteps := flag.Int("steps", 60, "max events per history before the drain")
	only := flag.Int("hid", -1, "only this history")
	replay := flag.String("replay", "", "replay the events of this file (JSON: sets, events) instead of generating")
	flag.Parse()
	out := os.Stdout
	if *outp != "" {
		f, err := os.Create(*outp)
		if err != nil {
			panic(err)
		}
		defer f.Close()
		out = f
	}
	log.SetHandler(discard.Default)
	if *replay != "" {
		b, err := os.ReadFile(*replay)
		if err != nil {
			panic(err)
		}
		var rp replayFile
		if err := json.Unmarshal(b, &rp); err != nil {
			panic(err)
		}
		if fail, _ := runHistory(out, 0, *seed, *prof, *maxSteps, &rp); fail != "" {
			fmt.Fprintf(os.Stderr, "replay: %s\n", fail)
		}
		return
	}
	master := hutil.NewRng(*seed)
	for i := 0; i < *n; i++ {
		s := master.Next()
		if *only >= 0 && *only != i {
			continue
		}
		fail, _ := runHistory(out, i, s, *prof, *maxSteps, nil)
		if fail != "" {
			fmt.Fprintf(os.Stderr, "history %d: %s\n", i, fail)
		}
	}
}

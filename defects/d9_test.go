package taskctl

// Demonstration of defect D9 (see /verif/DESIGN.md section 5). Copy into /repo/taskctl as zz_defects_test.go.
// A canceled command whose leader exits on the interrupt while a background child (which ignores SIGINT, as bash makes
// asynchronous commands do, and does not hold the output pipes) is still running: Run returned - the job was reported
// finished - while that child stayed alive until the kill timeout.

import (
	"bytes"
	"fmt"
	"os"
	"strconv"
	"testing"
	"time"

	"github.com/stretchr/testify/require"
	"github.com/taskctl/taskctl/pkg/task"
	"github.com/taskctl/taskctl/pkg/variables"
)

func defectProcsWithMark(mark string) []int {
	needle := []byte("VERIF_MARK=" + mark + "\x00")
	ents, _ := os.ReadDir("/proc")
	var pids []int
	for _, e := range ents {
		pid, err := strconv.Atoi(e.Name())
		if err != nil {
			continue
		}
		b, _ := os.ReadFile("/proc/" + e.Name() + "/environ")
		if bytes.Contains(append(b, 0), needle) {
			st, _ := os.ReadFile("/proc/" + e.Name() + "/stat")
			if i := bytes.LastIndexByte(st, ')'); i >= 0 && i+2 < len(st) && st[i+2] == 'Z' {
				continue
			}
			pids = append(pids, pid)
		}
	}
	return pids
}

func TestDefectD9_NoProcessOutlivesACanceledRun(t *testing.T) {
	mark := fmt.Sprintf("d9_%d", os.Getpid())
	r, err := NewTaskRunner(nil)
	require.NoError(t, err)
	r.Stdout, r.Stderr = os.Stderr, os.Stderr
	tk := task.FromCommands("VERIF_MARK=" + mark + " bash -c 'sleep 300 >/dev/null 2>&1 </dev/null & wait'")
	tk.Name = "t"
	tk.Variables = variables.FromMap(map[string]string{JobIDVariableName: "job"})
	done := make(chan error, 1)
	go func() { done <- r.Run(tk) }()
	for i := 0; i < 1000 && len(defectProcsWithMark(mark)) < 2; i++ {
		time.Sleep(5 * time.Millisecond)
	}
	require.Len(t, defectProcsWithMark(mark), 2, "bash and its background sleep are running")

	r.Cancel() // returns when all runs have returned: from here on the job is reported finished
	<-done
	time.Sleep(100 * time.Millisecond) // scheduling latency for a killed process to be gone
	left := defectProcsWithMark(mark)
	require.Empty(t, left, "processes of the canceled task still alive after the run was reported finished")
}

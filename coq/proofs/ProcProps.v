(** Properties of the process model (C20) *)
From stdpp Require Import list.
From PV Require Import Proc.

Lemma all_dead_kill ps : all_dead (kill_all ps) = true.
Proof. induction ps as [|p ps IH]; [done|]. simpl. exact IH. Qed.

Lemma all_dead_alter_dead ps i : all_dead ps = true → all_dead (alter (fun p => Proc false (p_ign p) (p_pipe p)) i ps) = true.
Proof.
  revert i. induction ps as [|p ps IH]; intros [|i]; simpl; try done.
  - intros H. apply andb_true_iff in H as [_ H]. done.
  - intros H. apply andb_true_iff in H as [H1 H2]. rewrite H1. simpl. by apply IH.
Qed.

Lemma all_dead_not_alive ps i : all_dead ps = true → is_alive ps i = false.
Proof.
  unfold is_alive. intros H. destruct (ps !! i) as [p|] eqn:E; [|done].
  unfold all_dead in H. rewrite forallb_forall in H. specialize (H p).
  rewrite <- elem_of_list_In in H. apply negb_true_iff. apply H. by eapply elem_of_list_lookup_2.
Qed.

Lemma all_dead_interrupt ps : all_dead ps = true → all_dead (interrupt ps) = true.
Proof.
  induction ps as [|p ps IH]; [done|]. simpl. intros H. apply andb_true_iff in H as [H1 H2].
  apply negb_true_iff in H1. rewrite H1. simpl. by apply IH.
Qed.

(** ** invariant *)
Definition ginv (s : st) (gr : group) : Prop :=
  (timed_out s = true → all_dead (g_procs gr) = true) ∧
  (g_running_at_cancel gr = true → g_returned gr = true → all_dead (g_procs gr) = true) ∧
  (canceled s = false → g_running_at_cancel gr = false).

Definition inv (s : st) : Prop := Forall (ginv s) (groups s) ∧ (timed_out s = true → canceled s = true) ∧ (reported s = true → canceled s = true ∧ forallb g_returned (groups s) = true).

Lemma inv_init : inv init.
Proof. split; [constructor|]. split; [done|]. done. Qed.

Lemma Forall_alter_same {A} (P : A → Prop) (f : A → A) l i : Forall P l → (∀ x, l !! i = Some x → P x → P (f x)) → Forall P (alter f i l).
Proof.
  intros Hl Hf. apply Forall_lookup. intros j y Hj.
  destruct (decide (i = j)) as [->|Hne].
  - rewrite list_lookup_alter in Hj. destruct (l !! j) as [x|] eqn:E; [|done]. injection Hj as <-.
    apply Hf; [done|]. by eapply Forall_lookup_1.
  - rewrite list_lookup_alter_ne in Hj by done. by eapply Forall_lookup_1.
Qed.

Lemma forallb_returned_alter (f : group → group) l i :
  (∀ x, g_returned x = true → g_returned (f x) = true) → forallb g_returned l = true → forallb g_returned (alter f i l) = true.
Proof.
  intros Hf. revert i. induction l as [|x l IH]; intros [|i]; simpl; try done.
  - intros H. apply andb_true_iff in H as [H1 H2]. by rewrite (Hf _ H1).
  - intros H. apply andb_true_iff in H as [H1 H2]. rewrite H1. simpl. by apply IH.
Qed.

Lemma step_inv s e s' : inv s → step s e = Some s' → inv s'.
Proof.
  intros (Hg & Ht & Hr) Hs. destruct e as [ps| g i | g i p | | g | | ]; simpl in Hs.
  - (* start *)
    destruct (negb (canceled s) && forallb p_alive ps && negb (bool_decide (ps = []))) eqn:E; [|done]. injection Hs as <-.
    apply andb_true_iff in E as [E _]. apply andb_true_iff in E as [Ec _]. apply negb_true_iff in Ec.
    split; [|split]; simpl.
    + apply Forall_app. split.
      * eapply Forall_impl; [exact Hg|]. intros gr (H1 & H2 & H3). done.
      * constructor; [|constructor]. split; [|split]; simpl; try done.
        intros Hto. specialize (Ht Hto). congruence.
    + done.
    + intros Hrep. destruct (Hr Hrep) as [Hc _]. congruence.
  - (* exit *)
    destruct (groups s !! g) as [gr|] eqn:Eg; [|done]. destruct (is_alive (g_procs gr) i) eqn:Ea; [|done]. injection Hs as <-. unfold upd_group.
    split; [|split]; simpl; [| done |].
    + apply Forall_alter_same; [done|]. intros x Hx (H1 & H2 & H3). split; [|split]; simpl.
      * intros Hto. apply all_dead_alter_dead. by apply H1.
      * intros Hr1 Hr2. apply all_dead_alter_dead. by apply H2.
      * done.
    + intros Hrep. destruct (Hr Hrep) as [Hc Hall]. split; [done|]. by apply forallb_returned_alter.
  - (* fork: only a live process forks *)
    destruct (groups s !! g) as [gr|] eqn:Eg; [|done]. destruct (is_alive (g_procs gr) i) eqn:Ea; [|done]. injection Hs as <-. unfold upd_group.
    split; [|split]; simpl; [| done |].
    + apply Forall_alter_same; [done|]. intros x Hx (H1 & H2 & H3).
      assert (x = gr) as -> by congruence.
      split; [|split]; simpl.
      * intros Hto. rewrite (all_dead_not_alive _ i (H1 Hto)) in Ea. done.
      * intros Hr1 Hr2. rewrite (all_dead_not_alive _ i (H2 Hr1 Hr2)) in Ea. done.
      * done.
    + intros Hrep. destruct (Hr Hrep) as [Hc Hall]. split; [done|]. by apply forallb_returned_alter.
  - (* cancel *)
    destruct (canceled s) eqn:Ec; [done|]. injection Hs as <-.
    split; [|split]; simpl.
    + apply Forall_fmap. eapply Forall_impl; [exact Hg|]. intros gr (H1 & H2 & H3). split; [|split]; simpl.
      * intros Hto. apply all_dead_interrupt. by apply H1.
      * intros Hn Hret. apply negb_true_iff in Hn. congruence.
      * done.
    + done.
    + intros Hrep. destruct (Hr Hrep) as [Hc _]. simpl in Hc. congruence.
  - (* wait returns *)
    destruct (groups s !! g) as [gr|] eqn:Eg; [|done].
    destruct (negb (g_returned gr) && leader_dead (g_procs gr) && pipes_closed (g_procs gr)) eqn:E; [|done]. injection Hs as <-. unfold upd_group.
    split; [|split]; simpl; [| done |].
    + apply Forall_alter_same; [done|]. intros x Hx (H1 & H2 & H3). split; [|split]; simpl.
      * intros Hto. destruct (canceled s); [apply all_dead_kill|by apply H1].
      * intros Hr1 _. destruct (canceled s) eqn:Ec; [apply all_dead_kill|]. rewrite (H3 eq_refl) in Hr1. done.
      * done.
    + intros Hrep. destruct (Hr Hrep) as [Hc Hall]. split; [done|]. by apply forallb_returned_alter.
  - (* timeout *)
    destruct (canceled s && negb (timed_out s)) eqn:E; [|done]. injection Hs as <-.
    apply andb_true_iff in E as [Ec _].
    split; [|split]; simpl.
    + apply Forall_fmap. eapply Forall_impl; [exact Hg|]. intros gr (H1 & H2 & H3). split; [|split]; simpl.
      * intros _. apply all_dead_kill.
      * intros _ _. apply all_dead_kill.
      * intros Hc. congruence.
    + done.
    + intros Hrep. destruct (Hr Hrep) as [Hc Hall]. split; [done|].
      clear -Hall. induction (groups s) as [|x l IH]; [done|]. simpl in *. apply andb_true_iff in Hall as [-> H]. simpl. by apply IH.
  - (* report *)
    destruct (canceled s && forallb g_returned (groups s) && negb (reported s)) eqn:E; [|done]. injection Hs as <-.
    apply andb_true_iff in E as [E _]. apply andb_true_iff in E as [Ec Eall].
    split; [|split]; simpl.
    + eapply Forall_impl; [exact Hg|]. intros gr (H1 & H2 & H3). split; [|split]; simpl; [exact H1|exact H2|]. intros Hc. congruence.
    + done.
    + done.
Qed.

Lemma run_inv es : ∀ s s', inv s → run s es = Some s' → inv s'.
Proof.
  induction es as [|e es IH]; intros s s' Hi Hr; simpl in Hr.
  - by injection Hr as <-.
  - destruct (step s e) as [s1|] eqn:E; [|done]. eapply IH; [|exact Hr]. by eapply step_inv.
Qed.

(** every reachable state: after the kill timeout nothing of the task is alive *)
Lemma dead_by_timeout es s : run init es = Some s → timed_out s = true → ∀ gr, gr ∈ groups s → all_dead (g_procs gr) = true.
Proof.
  intros Hr Hto gr Hin. pose proof (run_inv _ _ _ inv_init Hr) as (Hg & _).
  rewrite Forall_forall in Hg. by destruct (Hg _ Hin) as (H1 & _ & _); auto.
Qed.

(** every reachable state: when the job is reported finished, every command that was running when the context ended
    has returned and nothing of its group is alive *)
Lemma dead_at_report es s :
  run init es = Some s → reported s = true → ∀ gr, gr ∈ groups s → g_running_at_cancel gr = true → all_dead (g_procs gr) = true.
Proof.
  intros Hr Hrep gr Hin Hrun. pose proof (run_inv _ _ _ inv_init Hr) as (Hg & _ & Hr').
  destruct (Hr' Hrep) as [_ Hall]. rewrite forallb_forall in Hall. specialize (Hall gr). rewrite <- elem_of_list_In in Hall.
  rewrite Forall_forall in Hg. destruct (Hg _ Hin) as (_ & H2 & _). apply H2; [done|]. by apply Hall.
Qed.

(** after the timeout every handler can return: the report is never later than the kill timeout (plus latency) *)
Lemma report_enabled_after_timeout es s :
  run init es = Some s → timed_out s = true → ∀ g gr, groups s !! g = Some gr → g_returned gr = false → is_Some (step s (EWaitReturn g)).
Proof.
  intros Hr Hto g gr Hg Hret. simpl. rewrite Hg, Hret. simpl.
  assert (Hd : all_dead (g_procs gr) = true) by (eapply dead_by_timeout; [exact Hr|done|by eapply elem_of_list_lookup_2]).
  assert (leader_dead (g_procs gr) = true) as ->.
  { destruct (g_procs gr) as [|p ps]; [done|]. simpl in *. by apply andb_true_iff in Hd as [-> _]. }
  assert (pipes_closed (g_procs gr) = true) as ->.
  { unfold pipes_closed. unfold all_dead in Hd. rewrite forallb_forall in *. intros p Hp. specialize (Hd p Hp).
    apply negb_true_iff in Hd. by rewrite Hd. }
  done.
Qed.

(** with a kill timeout <= 0 the cancel behaves like cancel and timeout at once *)
Lemma step_immediate_inv s e s' : inv s → step_immediate s e = Some s' → inv s'.
Proof.
  intros Hi Hs. destruct e; try (exact (step_inv s _ s' Hi Hs)); simpl in Hs; [|done].
  destruct (canceled s) eqn:Ec; [done|]. injection Hs as <-.
  destruct Hi as (Hg & Ht & Hr). split; [|split]; simpl.
  - apply Forall_fmap. eapply Forall_impl; [exact Hg|]. intros gr (H1 & H2 & H3). split; [|split]; simpl.
    + intros _. apply all_dead_kill.
    + intros _ _. apply all_dead_kill.
    + done.
  - done.
  - intros Hrep. destruct (Hr Hrep) as [Hc _]. congruence.
Qed.

Lemma run_immediate_inv es : ∀ s s', inv s → run_immediate s es = Some s' → inv s'.
Proof.
  induction es as [|e es IH]; intros s s' Hi Hr; simpl in Hr.
  - by injection Hr as <-.
  - destruct (step_immediate s e) as [s1|] eqn:E; [|done]. eapply IH; [|exact Hr]. by eapply step_immediate_inv.
Qed.

Lemma immediate_timed_out es : ∀ s s', (canceled s = true → timed_out s = true) → run_immediate s es = Some s' → canceled s' = true → timed_out s' = true.
Proof.
  induction es as [|e es IH]; intros s s' Hs Hr; simpl in Hr.
  - injection Hr as <-. done.
  - destruct (step_immediate s e) as [s1|] eqn:E; [|done]. eapply IH; [|exact Hr].
    destruct e; simpl in E.
    + destruct (negb (canceled s) && forallb p_alive ps && negb (bool_decide (ps = []))); [|done]. by injection E as <-.
    + destruct (groups s !! g); [|done]. destruct (is_alive _ _); [|done]. by injection E as <-.
    + destruct (groups s !! g); [|done]. destruct (is_alive _ _); [|done]. by injection E as <-.
    + destruct (canceled s); [done|]. by injection E as <-.
    + destruct (groups s !! g) as [gr|]; [|done]. destruct (negb (g_returned gr) && leader_dead (g_procs gr) && pipes_closed (g_procs gr)); [|done]. by injection E as <-.
    + done.
    + destruct (canceled s && forallb g_returned (groups s) && negb (reported s)) eqn:E2; [|done]. injection E as <-. simpl.
      intros _. apply Hs. apply andb_true_iff in E2 as [E2 _]. by apply andb_true_iff in E2 as [-> _].
Qed.

(** kill timeout <= 0: from the cancel on, nothing of the task is alive *)
Lemma immediate_dead_after_cancel es s :
  run_immediate init es = Some s → canceled s = true → ∀ gr, gr ∈ groups s → all_dead (g_procs gr) = true.
Proof.
  intros Hr Hc gr Hin. pose proof (run_immediate_inv _ _ _ inv_init Hr) as (Hg & _).
  assert (Hto : timed_out s = true) by (eapply immediate_timed_out; [|exact Hr|done]; done).
  rewrite Forall_forall in Hg. by destruct (Hg _ Hin) as (H1 & _ & _); auto.
Qed.

(** several tasks (of the same or of different jobs): an event of one task leaves the processes of every other task alone *)
Definition sys_step (ss : list st) (i : nat) (e : ev) : option (list st) :=
  match ss !! i with Some s => match step s e with Some s' => Some (<[i := s']> ss) | None => None end | None => None end.

Lemma other_tasks_untouched ss i e ss' j : sys_step ss i e = Some ss' → j ≠ i → ss' !! j = ss !! j.
Proof.
  unfold sys_step. destruct (ss !! i) as [s|]; [|done]. destruct (step s e) as [s'|]; [|done].
  intros [= <-] Hne. by rewrite list_lookup_insert_ne.
Qed.

(** without the repair a member of a running command's group can be alive at the report *)
Definition d9_trace : list ev :=
  [EStart [Proc true false true; Proc true true false];  (* bash -c 'sleep N >/dev/null 2>&1 </dev/null & wait' *)
   ECancel;                                               (* bash dies of SIGINT, the background sleep ignores it *)
   EWaitReturn 0; EReport].

Lemma d9_refuted :
  ∃ s gr, run_unrepaired init d9_trace = Some s ∧ reported s = true ∧ gr ∈ groups s ∧ g_running_at_cancel gr = true ∧ all_dead (g_procs gr) = false.
Proof. eexists _, _. split; [vm_compute; reflexivity|]. split; [done|]. split; [by left|]. done. Qed.

Lemma d9_repaired : ∃ s, run init d9_trace = Some s ∧ reported s = true ∧ Forall (fun gr => all_dead (g_procs gr) = true) (groups s).
Proof. eexists. split; [vm_compute; reflexivity|]. split; [done|]. repeat constructor. Qed.

(** what is left of a command that returned before the cancel (a background process started by an earlier script line)
    is only guaranteed dead by the timeout: it can be alive when the job is reported finished *)
Definition earlier_line_trace : list ev :=
  [EStart [Proc true false true; Proc true true false];  (* line 1: bash -c 'sleep N >/dev/null 2>&1 </dev/null &' *)
   EExit 0 0; EWaitReturn 0;                              (* bash exits, the line returns, sleep stays *)
   EStart [Proc true false true];                         (* line 2: sleep N *)
   ECancel; EWaitReturn 1; EReport].

Lemma earlier_line_refuted :
  ∃ s gr, run init earlier_line_trace = Some s ∧ reported s = true ∧ gr ∈ groups s ∧ all_dead (g_procs gr) = false.
Proof. eexists _, _. split; [vm_compute; reflexivity|]. split; [done|]. split; [by left|]. done. Qed.

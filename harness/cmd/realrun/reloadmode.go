package main

import (
	"encoding/json"
	"fmt"
	"os"
	"strings"
	"time"

	"verifharness/hutil"
)

// reload mode (C16): the real application with --watch. The definition file walks randomly over a small pool of
// versions, so that it often returns to an earlier content (also to the content the process was started with).
// Around every change one job is running, one is queued, and one is scheduled after the change: each must have
// executed the script and seen the pipeline environment of the version that was current when it was accepted.

var reloadPool = []string{"a", "b", "c"}

func verPipes(v string) map[string]PipeDef {
	var env map[string]string // version a has no env section at all
	switch v {
	case "b":
		env = map[string]string{"RV": "b"}
	case "c":
		env = map[string]string{"RV": "c", "RW": "x"}
	case "d":
		env = map[string]string{"RE1": ""}
	case "e":
		env = map[string]string{"RE2": ""}
	}
	script := []string{"echo ver=" + v + " rv=${RV-unset}", "sleep 0.25"}
	if v == "d" || v == "e" {
		// d and e differ in nothing but the name of an environment variable whose value is empty
		script[0] = "echo ver=de rv=${RV-unset} e1=${RE1-unset} e2=${RE2-unset}"
	}
	ql := verQueue(v)
	var qlp *int
	if ql >= 0 {
		qlp = &ql
	}
	return map[string]PipeDef{"r": {Concurrency: verConc(v), QueueLimit: qlp, Env: env, Tasks: map[string]TaskDef{"a": {Script: script}}}}
}

// ... and the queue limit (C05: the admission rule follows the definition in force): a unlimited, b 2, c 1
func verQueue(v string) int {
	switch v {
	case "b":
		return 2
	case "c":
		return 1
	}
	return -1
}

// the concurrency limit differs between the versions too (C01: a changed limit governs the jobs started after the change)
func verConc(v string) int {
	if v == "b" {
		return 2
	}
	return 1
}

// executing jobs of pipeline r as the API reports them
func (a *App) executing() int {
	st, b, err := a.req("GET", "/pipelines/jobs", nil)
	if err != nil || st != 200 {
		return -1
	}
	var out struct {
		Jobs []struct {
			Pipeline  string     `json:"pipeline"`
			Start     *time.Time `json:"start"`
			Completed bool       `json:"completed"`
			Canceled  bool       `json:"canceled"`
		} `json:"jobs"`
	}
	if json.Unmarshal(b, &out) != nil {
		return -1
	}
	n := 0
	for _, j := range out.Jobs {
		if j.Pipeline == "r" && j.Start != nil && !j.Completed && !j.Canceled {
			n++
		}
	}
	return n
}

func verOutput(v string) string {
	switch v {
	case "d":
		return "ver=de rv=unset e1= e2=unset"
	case "e":
		return "ver=de rv=unset e1=unset e2="
	}
	rv := "unset"
	if v != "a" {
		rv = v
	}
	return "ver=" + v + " rv=" + rv
}

func reloadMode(seed uint64, n int, walk string) {
	os.Unsetenv("RV")
	os.Unsetenv("RW")
	os.Unsetenv("RE1")
	os.Unsetenv("RE2")
	if walk != "" {
		reloadRound(strings.Split(walk, ","), 0)
		return
	}
	r := hutil.NewRng(seed)
	for round := 0; round < n; round++ {
		w := []string{reloadPool[r.Intn(len(reloadPool))]}
		for len(w) < 5 {
			next := reloadPool[r.Intn(len(reloadPool))]
			if next != w[len(w)-1] {
				w = append(w, next)
			}
		}
		reloadRound(w, round)
	}
	// one more round in which two consecutive versions differ only in the name of an empty-valued environment variable
	abc := func() string { return reloadPool[r.Intn(len(reloadPool))] }
	p, q := "d", "e"
	if r.Intn(2) == 1 {
		p, q = q, p
	}
	reloadRound([]string{abc(), p, q, p, abc()}, n)
}

func jobOutput(a *App, id string) string {
	if id == "" {
		return "<not accepted>"
	}
	if _, ok := a.WaitDone(id, 30*time.Second); !ok {
		return "<not finished>"
	}
	l, st := a.Logs(id, "a")
	if l == nil {
		return fmt.Sprintf("<logs: %d>", st)
	}
	return strings.TrimSpace(l.Stdout)
}

func reloadRound(walk []string, round int) {
	a, err := startApp(verPipes(walk[0]), "--watch", "--poll-interval", "40ms")
	if err != nil {
		emit(map[string]interface{}{"kind": "error", "round": round, "what": err.Error()})
		return
	}
	defer a.Stop()
	cur := walk[0]
	for step, next := range walk[1:] {
		idRun, _, _ := a.Schedule("r", nil)
		idQ, _, _ := a.Schedule("r", nil)
		if err := a.WriteDefs(verPipes(next)); err != nil {
			emit(map[string]interface{}{"kind": "error", "round": round, "what": err.Error()})
			return
		}
		// the poll notices the change within some 40 ms; a job scheduled after that must use the new version
		after, tries := "", 0
		for tries = 1; tries <= 8; tries++ {
			time.Sleep(300 * time.Millisecond)
			id, _, _ := a.Schedule("r", nil)
			after = jobOutput(a, id)
			if after == verOutput(next) {
				break
			}
		}
		outRun, outQ := jobOutput(a, idRun), jobOutput(a, idQ)
		// the limit in force: three requests at once, then the number of executing jobs is sampled
		var burst []string
		accepted := 0
		for k := 0; k < 5; k++ {
			id, st, _ := a.Schedule("r", nil)
			if st == 202 {
				accepted++
				burst = append(burst, id)
			}
		}
		wantAccepted := 5
		if q := verQueue(next); q >= 0 && verConc(next)+q < 5 {
			wantAccepted = verConc(next) + q
		}
		maxExec := 0
		for k := 0; k < 6; k++ {
			if n := a.executing(); n > maxExec {
				maxExec = n
			}
			time.Sleep(25 * time.Millisecond)
		}
		for _, id := range burst {
			jobOutput(a, id)
		}
		rec := map[string]interface{}{"kind": "reload_step", "round": round, "step": step, "walk": walk, "from": cur, "to": next,
			"running": outRun, "queued": outQ, "after": after, "tries": tries, "ok": true, "limit": verConc(next), "max_executing": maxExec, "accepted_of_5": accepted, "accepted_expected": wantAccepted}
		var what []string
		if outRun != verOutput(cur) {
			what = append(what, fmt.Sprintf("the job running during the change %s->%s printed %q, accepted under %q", cur, next, outRun, verOutput(cur)))
		}
		if outQ != verOutput(cur) {
			what = append(what, fmt.Sprintf("the job queued during the change %s->%s printed %q, accepted under %q", cur, next, outQ, verOutput(cur)))
		}
		if after != verOutput(next) {
			what = append(what, fmt.Sprintf("jobs accepted up to %d ms after the definitions changed %s->%s (walk %v) still print %q, expected %q",
				300*8, cur, next, walk[:step+2], after, verOutput(next)))
		}
		if maxExec != verConc(next) {
			// (judged also when the new version did not show: then the old limit is still in force although the file changed)
			lw := fmt.Sprintf("after the definitions changed %s->%s (walk %v) the concurrency limit is %d, but %d jobs of the pipeline executed at once out of the requests made together",
				cur, next, walk[:step+2], verConc(next), maxExec)
			rec["limit_what"] = lw
			what = append(what, lw)
		}
		if accepted != wantAccepted {
			aw := fmt.Sprintf("after the definitions changed %s->%s (walk %v) concurrency is %d and queue_limit %d, but %d of 5 simultaneous requests were accepted (expected %d)",
				cur, next, walk[:step+2], verConc(next), verQueue(next), accepted, wantAccepted)
			rec["admit_what"] = aw
			what = append(what, aw)
		}
		if len(what) > 0 {
			rec["ok"] = false
			rec["what"] = strings.Join(what, "; ")
		}
		emit(rec)
		if after == verOutput(next) {
			cur = next // otherwise the application is, as far as can be seen, still on the version before
		}
	}
}

(** * C11 — Shutdown leaves only terminal jobs and a store that matches them  (partial for real time)
    Proved on the model: what the critical sections of Shutdown do and when it can return; the debounce protocol of
    the persist loop; every step that changes what SaveToStore would write sets the persist request
    (C11_change_requests_save; the flag itself is compared with requestPersist after every event by the correspondence
    run). Not proved: wall-clock bounds (poll and persist intervals), signal wiring. *)
From stdpp Require Import list.
From Coq Require Import ZArith Lia.
From PV Require Import System Runner PersistLoop proofs.PersistProps proofs.PersistReqProps.

(** while shutting down no schedule request is accepted, and none leaves a trace *)
Theorem C11_no_admission : ∀ s p v u, st_shut s = true → do_schedule s p v u = (s, RErrShutdown).
Proof. exact shutdown_no_admission. Qed.

(** the first step of a shutdown marks exactly the waiting jobs canceled; running jobs are not touched (a graceful
    shutdown cancels only waiting jobs) *)
Theorem C11_graceful_cancels_only_waiting : ∀ s s' id j,
  reach s → do_shutdown_begin s = Some s' → get_job s id = Some j →
  get_job s' id = Some (if existsb (Nat.eqb id) (wl_get (st_wait s) (j_pipe j)) then set_canceled j else j)
  ∧ (is_waiting j = false → get_job s' id = Some j)
  ∧ st_shut s' = true ∧ st_wait s' = [].
Proof. exact shutdown_begin_effect. Qed.

(** a forced shutdown leaves no running job without a cancel request — which makes it end canceled (C04_ends_canceled) *)
Theorem C11_forced_cancels_running : ∀ s s' id j,
  reach s → do_shutdown_force s = Some s' → get_job s' id = Some j → j_removed j = false → is_running j = true →
  j_cancel_req j = true.
Proof. exact shutdown_force_requests. Qed.

(** the deadline counts as long as ANY job runs, whether or not a reload has meanwhile removed its pipeline from the
    definitions: the forced branch is then enabled, and an unforced Shutdown cannot return *)
Theorem C11_force_enabled_while_any_job_runs : ∀ s id j,
  st_shutg s = Some false → get_job s id = Some j → j_removed j = false → is_running j = true →
  ∃ s', do_shutdown_force s = Some s'.
Proof. exact shutdown_force_enabled. Qed.
Theorem C11_graceful_waits_for_every_running_job : ∀ s id j,
  st_shutg s = Some false → get_job s id = Some j → j_removed j = false → is_running j = true →
  do_shutdown_return s = None.
Proof. exact shutdown_no_return_while_running. Qed.

(** Shutdown can only return when nothing is left: then no job is running or waiting and no scheduler exists ... *)
Theorem C11_after_return_terminal : ∀ s s' id j,
  reach s → do_shutdown_return s = Some s' → get_job s' id = Some j → j_removed j = false →
  is_running j = false ∧ is_waiting j = false ∧ j_sched j = None.
Proof. exact shutdown_return_terminal. Qed.

(** ... and the store holds exactly the final reported state of every job *)
Theorem C11_store_matches : ∀ s s',
  do_shutdown_return s = Some s' →
  st_store s' = Some (omap (fun ij => if j_removed ij.2 then None else Some (to_pjob ij.1 ij.2)) (imap (fun i j => (i, j)) (st_jobs s')))
  ∧ st_shutg s' = None ∧ st_shut s' = st_shut s.
Proof. exact shutdown_return_store. Qed.

(** every event other than a save, a restart and the two ends of Shutdown (which saves before it returns): if the step changes
    what SaveToStore would write ([pview]: the jobs not yet removed, as persisted), it requests a save *)
Theorem C11_change_requests_save : ∀ s e s' r,
  step s e = Some (s', r) → ¬ writes_store e → pview s' ≠ pview s → st_req s' = true.
Proof. exact change_requests_save_view. Qed.
(** [pview] is what a save writes *)
Theorem C11_save_writes_view : ∀ s, st_store (do_save s) = Some (pview (do_save s)).
Proof. exact save_writes_view. Qed.

(** the persist loop: an acknowledged change is never forgotten (a token is pending or the snapshot is about to be
    taken), the loop can always move, and three loop events — end of the current sleep, take, snapshot: one persist
    interval plus one save — bring the store up to date *)
Theorem C11_change_not_forgotten : ∀ s e s', pinv s → pstep s e = Some s' → pinv s'.
Proof. exact pinv_step. Qed.
Theorem C11_loop_not_stuck : ∀ s, pinv s → saved s < version s → ∃ e s', e ≠ PChange ∧ pstep s e = Some s'.
Proof. exact ploop_enabled. Qed.
Theorem C11_change_reaches_store : ∀ s, pinv s → saved (loop_run 3 s) = version s ∧ version (loop_run 3 s) = version s.
Proof. exact ploop_catches_up. Qed.

Definition ex_defs : defs := [(0%nat, PDef 1 None false 0 false 0 0 0 [(0%nat, TaskDef [] false false 0 0)])].
Example C11_ex_graceful :
  let s := exec (init ex_defs) [EvSchedule 0 VNone 0; EvSchedule 0 VNone 0; EvIterBegin 0; EvVisit 0 0; EvRunBegin 0 0; EvShutdownBegin;
                                EvShutdownReturn; EvSchedule 0 VNone 0; EvRunEnd 0 0 OutOk; EvNotify 0 0; EvIterBegin 0; EvVisit 0 0; EvSchedReturn 0;
                                EvShutdownReturn] in
  ((fun j => (j_completed j, j_canceled j)) <$> st_jobs s, st_shutg s, length <$> st_store s) = ([(true, false); (false, true)], None, Some 2%nat).
Proof. vm_compute. done. Qed.

Example C11_ex_change_requests :
  let s := exec (init ex_defs) [EvSchedule 0 VNone 0; EvIterBegin 0] in
  (pview <$> (fst <$> step s (EvVisit 0 0))) ≠ Some (pview s) ∧ (st_req <$> (fst <$> step s (EvVisit 0 0))) = Some true.
Proof. vm_compute. split; [discriminate|done]. Qed.

Print Assumptions C11_no_admission.
Print Assumptions C11_graceful_cancels_only_waiting.
Print Assumptions C11_forced_cancels_running.
Print Assumptions C11_after_return_terminal.
Print Assumptions C11_store_matches.
Print Assumptions C11_change_requests_save.
Print Assumptions C11_save_writes_view.
Print Assumptions C11_change_not_forgotten.
Print Assumptions C11_loop_not_stuck.
Print Assumptions C11_change_reaches_store.
Print Assumptions C11_force_enabled_while_any_job_runs.
Print Assumptions C11_graceful_waits_for_every_running_job.
